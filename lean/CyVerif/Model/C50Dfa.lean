import CyVerif.Model.C50Re
/-!
Model of `Cython/Plex/DFA.py` (`nfa_to_dfa`, `epsilon_closure`,
`set_epsilon_closure`, `add_to_epsilon_closure`, `StateMap`) and of
`Machines.FastMachine` (`new_state`, `add_transitions`).  DFA state `q` here is
the dict with `number == q + 1`.  Python sets are iterated in increasing state
number here (hash order in Python); the `epsilon_closure` cache on the node is
not modelled (the NFA is not modified while it is in use).
-/
namespace CyVerif.C50

def NFA.node (n : NFA) (s : Nat) : Node := (n.nodes[s]?).getD Node.new

/-- `state.transitions.get_epsilon()`, with `if state_set_2:` folded in -/
def NFA.eps (n : NFA) (s : Nat) : List Nat := ((n.node s).trans.getEpsilon).getD []

/-- `for state2 in state_set_2: add_to_epsilon_closure(state_set, state2)` -/
def foldClosure (h : SSet → Nat → Option SSet) : List Nat → SSet → Option SSet
  | [], acc => some acc
  | t :: ts, acc =>
    match h acc t with
    | some acc' => foldClosure h ts acc'
    | none => none

/-- `add_to_epsilon_closure(state_set, state)`; `none` = the model's fuel ran out. -/
def addToClosure (n : NFA) : Nat → SSet → Nat → Option SSet
  | 0, _, _ => none
  | fuel + 1, acc, s =>
    if s ∈ acc then some acc
    else foldClosure (addToClosure n fuel) (n.eps s) (sins s acc)

/-- `epsilon_closure(state)` -/
def epsClosure (n : NFA) (s : Nat) : Option SSet := addToClosure n (n.nodes.length + 1) [] s

/-- `set_epsilon_closure(state_set)` -/
def setEpsClosure (n : NFA) : List Nat → Option SSet
  | [] => some []
  | s :: ss =>
    match epsClosure n s, setEpsClosure n ss with
    | some c, some r => some (sunion r c)
    | _, _ => none

/-- a `FastMachine` state dict: character keys (as code ranges, newest first),
`'else'`, `'bol'`, `'eol'`, `'eof'`, `'action'` (the key `''` is always `None`). -/
structure DState where
  chars : List (Int × Int × Nat)
  els : Option Nat
  bol : Option Nat
  eol : Option Nat
  eof : Option Nat
  action : Option Nat
  deriving DecidableEq, Repr

/-- `FastMachine` together with `StateMap`: `keys[q]` is the old-state set of new state `q`
(`new_to_old_dict`; `old_to_new_dict` is its inverse). -/
structure SMap where
  states : List DState
  keys : List SSet
  inits : List (String × Nat)
  deriving Repr

/-- `StateMap.highest_priority_action(state_set)` -/
def highestPriorityAction (n : NFA) (set : SSet) : Option Nat :=
  (set.foldl (fun (best : Option Nat × Int) s =>
      if (n.node s).prio > best.2 then ((n.node s).action, (n.node s).prio) else best)
    (none, -maxint)).1

def findKey (key : SSet) : List SSet → Nat → Option Nat
  | [], _ => none
  | k :: ks, i => if k = key then some i else findKey key ks (i + 1)

/-- `StateMap.old_to_new(old_state_set)` -/
def SMap.oldToNew (n : NFA) (sm : SMap) (set : SSet) : SMap × Nat :=
  match findKey set sm.keys 0 with
  | some q => (sm, q)
  | none =>
    ({ sm with
        states := sm.states ++ [⟨[], none, none, none, none, highestPriorityAction n set⟩],
        keys := sm.keys ++ [set] }, sm.states.length)

/-- `FastMachine.add_transitions(state, event, new_state)`; `none` = `chr(code)` raises ValueError -/
def DState.addTransitions (st : DState) (ev : Ev) (t : Nat) : Option DState :=
  match ev with
  | .range c0 c1 =>
    if c0 = -maxint then some { st with els := some t }
    else if c1 ≠ maxint then
      if c0 < c1 ∧ (c0 < 0 ∨ 1114112 < c1) then none
      else some { st with chars := (c0, c1, t) :: st.chars }
    else some st
  | .sp .bol => some { st with bol := some t }
  | .sp .eol => some { st with eol := some t }
  | .sp .eof => some { st with eof := some t }
  | .sp .eps => some st

/-- `for old_state in …: for event, old_target_states in old_state.transitions.items():
      if event and old_target_states: transitions.add_set(event, set_epsilon_closure(old_target_states))` -/
def mergeItems (n : NFA) : List (Ev × SSet) → TMap → Option TMap
  | [], tm => some tm
  | (ev, tgt) :: rest, tm =>
    if ev ≠ .sp .eps ∧ tgt ≠ [] then
      match setEpsClosure n tgt with
      | some c => mergeItems n rest (tm.addSet ev c)
      | none => none
    else mergeItems n rest tm

def mergeStates (n : NFA) : List Nat → TMap → Option TMap
  | [], tm => some tm
  | s :: ss, tm =>
    match mergeItems n (n.node s).trans.items tm with
    | some tm' => mergeStates n ss tm'
    | none => none

inductive DfaErr where
  | fuel | valueError
  deriving DecidableEq, Repr

/-- `for event, old_states in transitions.items():
      new_machine.add_transitions(new_state, event, state_map.old_to_new(old_states))` -/
def emitItems (n : NFA) (q : Nat) : List (Ev × SSet) → SMap → Except DfaErr SMap
  | [], sm => .ok sm
  | (ev, set) :: rest, sm =>
    let r := sm.oldToNew n set
    match ((r.1.states[q]?).getD ⟨[], none, none, none, none, none⟩).addTransitions ev r.2 with
    | some st => emitItems n q rest { r.1 with states := modifyNth (fun _ => st) q r.1.states }
    | none => .error .valueError

/-- body of `for new_state in new_machine.states:` for the state with index `q` -/
def processState (n : NFA) (sm : SMap) (q : Nat) : Except DfaErr SMap :=
  match mergeStates n ((sm.keys[q]?).getD []) TMap.empty with
  | some tm => emitItems n q tm.items sm
  | none => .error .fuel

/-- the list iteration that stops "when closure is achieved" -/
def dfaLoop (n : NFA) : Nat → Nat → SMap → Except DfaErr SMap
  | 0, _, _ => .error .fuel
  | fuel + 1, q, sm =>
    if q < sm.states.length then
      match processState n sm q with
      | .ok sm' => dfaLoop n fuel (q + 1) sm'
      | .error e => .error e
    else .ok sm

/-- seeding: `for (key, old_state) in old_machine.initial_states.items()` -/
def seedInits (n : NFA) : List (String × Nat) → SMap → Except DfaErr SMap
  | [], sm => .ok sm
  | (name, s) :: rest, sm =>
    match epsClosure n s with
    | some c =>
      let r := sm.oldToNew n c
      seedInits n rest { r.1 with inits := setInit name r.2 r.1.inits }
    | none => .error .fuel

/-- `nfa_to_dfa(old_machine)` with an explicit bound on the number of DFA states -/
def nfaToDfa (n : NFA) (fuel : Nat) : Except DfaErr SMap :=
  match seedInits n n.inits ⟨[], [], []⟩ with
  | .ok sm => dfaLoop n fuel 0 sm
  | .error e => .error e

end CyVerif.C50

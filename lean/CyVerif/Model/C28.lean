import CyVerif.Model.Util
/-!
# C28 — operator dispatch of extension types: shared definitions

One machinery models CPython's operator protocol (`Objects/abstract.c`: `binary_op1`, `binary_iop1`,
`ternary_op`, `do_richcompare`; `Objects/typeobject.c`: `SLOT1BINFULL` = `slot_nb_*`,
`slot_tp_richcompare`, `update_one_slot`, slot wrappers) over a *world* of classes.  A class is a
Python class, a builtin `int`, or a Cython `cdef class`; for the latter the slot functions are the ones
Cython generates (`ExtensionTypes.c :: BinopSlot` instantiated by `ModuleNode.generate_binop_function`
with `c_api_binop_methods=False`; `ModuleNode.generate_richcmp_function`).  "The equivalent Python
classes" is the same world with every `cdef` class turned into a Python class (`pyWorld`), so the
property reads `run w = run (pyWorld w)`.

Method bodies are not part of the configuration: a run is a *decision tree* whose inner nodes are the
user-method calls (class, method, which operand is `self`) and whose branches are the body's answer.
Equality of trees is equality of call order and result for EVERY behaviour of the bodies (also
stateful ones).

The definitions avoid type-class equality and list traversals on purpose: the property theorems are
checked by kernel evaluation over all configurations.
-/
namespace CyVerif.C28

inductive Kind | cdef | py | int
  deriving DecidableEq, Repr

def Kind.isCdef : Kind → Bool | .cdef => true | _ => false
def Kind.isPy : Kind → Bool | .py => true | _ => false

/-- rich-comparison methods in the order of `TypeSlots.richcmp_special_methods` -/
inductive Cmp | eq | ne | lt | gt | le | ge
  deriving DecidableEq, Repr

/-- a class: kind, single base (index into the world, smaller than its own index), which of
`__op__`, `__rop__`, `__iop__` and of the six comparison methods its own body defines, and whether it
carries `@cython.total_ordering` / `@functools.total_ordering` -/
structure Cls where
  kind : Kind
  base : Option Nat
  op : Bool
  rop : Bool
  iop : Bool
  ceq : Bool := false
  cne : Bool := false
  clt : Bool := false
  cgt : Bool := false
  cle : Bool := false
  cge : Bool := false
  tord : Bool := false
  deriving DecidableEq, Repr

abbrev World := List Cls

inductive Meth | op | rop | iop | cmp (c : Cmp)
  deriving DecidableEq, Repr

inductive Side | L | R
  deriving DecidableEq, Repr

def Side.flip : Side → Side | .L => .R | .R => .L

/-- a user-method call: defining class, method, operand bound to `self` (the other one is the argument) -/
structure Call where
  cls : Nat
  m : Meth
  self : Side
  deriving DecidableEq, Repr

/-- the variant of the `BinopSlot` template: `sameTypeReflected = true` is the pinned code (the
reflected method may be called although both operands have the same type), `false` the repaired one -/
structure Variant where
  sameTypeReflected : Bool
  deriving DecidableEq, Repr

/-- per-operator facts: `coexist`: user `__op__`/`__rop__` of a cdef class are also put into the
method table with METH_COEXIST (true for the binary slots, false for `nb_power` whose signature has an
optional argument); `isAdd`: `PyNumber_InPlaceAdd` falls back to `sq_inplace_concat` -/
structure OpCfg where
  coexist : Bool
  isAdd : Bool
  deriving DecidableEq, Repr

def dfltCls : Cls := { kind := .int, base := none, op := false, rop := false, iop := false }

def clsOf : World → Nat → Cls
  | [], _ => dfltCls
  | c :: _, 0 => c
  | _ :: rest, n + 1 => clsOf rest n

/-- `c` is `d` or one of its bases (`PyType_IsSubtype`); `fuel` bounds the chain length -/
def isSubF (w : World) : Nat → Nat → Nat → Bool
  | 0, _, _ => false
  | f + 1, c, d =>
    if Nat.beq c d then true
    else match (clsOf w c).base with
      | none => false
      | some b => isSubF w f b d

def fuelOf (w : World) : Nat := w.length + 1

def isSub (w : World) (c d : Nat) : Bool := isSubF w (fuelOf w) c d

/-- what attribute lookup on the type finds for a special-method name -/
inductive Attr
  | func (d : Nat)     -- Python function defined in Python class d
  | meth (d : Nat)     -- METH_COEXIST method descriptor of cdef class d (direct call of the user method)
  | wrap (d : Nat)     -- slot wrapper of cdef class d's own slot function
  deriving DecidableEq, Repr

def Attr.beq : Attr → Attr → Bool
  | .func a, .func b => Nat.beq a b
  | .meth a, .meth b => Nat.beq a b
  | .wrap a, .wrap b => Nat.beq a b
  | _, _ => false

/-- identity of a binary slot function -/
inductive Slot
  | none
  | S                 -- `slot_nb_*` of typeobject.c (shared by all heap types)
  | cy (d : Nat)      -- the function generated for cdef class d
  | int
  deriving DecidableEq, Repr

def Slot.beq : Slot → Slot → Bool
  | .none, .none => true
  | .S, .S => true
  | .int, .int => true
  | .cy a, .cy b => Nat.beq a b
  | _, _ => false

def Slot.isNone : Slot → Bool | .none => true | _ => false
def Slot.isS : Slot → Bool | .S => true | _ => false
def Slot.isCy (s : Slot) (c : Nat) : Bool := match s with | .cy d => Nat.beq d c | _ => false

end CyVerif.C28

import CyVerif.Model.C23VM
/-! History runner for both wrappers, token parser and the line-protocol entry `handle`. -/
namespace CyVerif.C23

section
variable {σ ι : Type}

/-- observable trace of a history on Cython's generator object: per step the outcome and the side effects;
the object is finalised at the end of the history (or at an explicit `del`); a diverged step ends the trace -/
def cyTrace (fl : Flags) (B : Body σ ι) (O : OpqSem ι) (fuel : Nat) : CyObj σ ι → List HOp → List (Out × List Ev)
  | obj, .op o :: rest =>
    let m := cyMethod (cyRun fl B O fuel) obj o
    if m.1 = .diverged then [(m.1, m.2.2)] else (m.1, m.2.2) :: cyTrace fl B O fuel m.2.1 rest
  | obj, _ =>
    let r := cyRun fl B O fuel obj .del
    [(if r.out = .div then .diverged else .deleted, r.log)]

def pyTrace (coro : Bool) (B : Body σ ι) (O : OpqSem ι) (fuel : Nat) : PyObj σ ι → List HOp → List (Out × List Ev)
  | obj, .op o :: rest =>
    let m := pyMethod (pyRun coro B O fuel) obj o
    if m.1 = .diverged then [(m.1, m.2.2.1)] else (m.1, m.2.2.1) :: pyTrace coro B O fuel m.2.1 rest
  | obj, _ =>
    let r := pyRun coro B O fuel obj .del
    [(if r.out = .div then .diverged else .deleted, r.log)]

/-- the deviation situations the CPython model passes through on a history -/
def pyDevs (coro : Bool) (B : Body σ ι) (O : OpqSem ι) (fuel : Nat) : PyObj σ ι → List HOp → List Dev
  | obj, .op o :: rest =>
    let m := pyMethod (pyRun coro B O fuel) obj o
    if m.1 = .diverged then m.2.2.2 else m.2.2.2 ++ pyDevs coro B O fuel m.2.1 rest
  | obj, _ => (pyRun coro B O fuel obj .del).devs

/-- the same, per step (for the classification of disagreements by the harness) -/
def pyDevsPer (coro : Bool) (B : Body σ ι) (O : OpqSem ι) (fuel : Nat) : PyObj σ ι → List HOp → List (List Dev)
  | obj, .op o :: rest =>
    let m := pyMethod (pyRun coro B O fuel) obj o
    if m.1 = .diverged then [m.2.2.2] else m.2.2.2 :: pyDevsPer coro B O fuel m.2.1 rest
  | obj, _ => [(pyRun coro B O fuel obj .del).devs]

end

/-! ### tokens -/

def natOf (cs : List Char) : Option Nat := (String.ofList cs).toNat?

def parseExc (s : String) : Option Exc :=
  match s.toList with
  | 'S' :: rest => if rest.isEmpty then some (.stopIteration 0) else (natOf rest).map .stopIteration
  | ['G'] => some .generatorExit
  | ['U'] => some (.other 2)
  | ['B'] => some (.other 3)
  | ['K'] => some (.other 4)
  | 'V' :: _ => some (.valueError .user)
  | 'R' :: _ => some (.runtimeError .user)
  | 'T' :: _ => some (.typeError .user)
  | ['A'] => some .attributeError
  | _ => none

def parseOp (s : String) : Option Op :=
  match s.toList with
  | ['n'] => some .next
  | ['c'] => some .close
  | ['p'] => some .probe
  | 's' :: rest => if rest = ['N'] then some (.send 0) else (natOf rest).map .send
  | 't' :: rest => (parseExc (String.ofList rest)).map .throw
  | 'T' :: rest => (parseExc (String.ofList rest)).map .throw
  | _ => none

def parseHOp (s : String) : Option HOp :=
  if s = "d" then some .del else (parseOp s).map .op

def parseMode (s : String) : Option Nat :=
  match s with
  | "-" => some 0 | "r" => some 1 | "y" => some 2 | "s" => some 3 | "n" => some 1 | "x" => some 2
  | _ => none

def parseInstr (t : String) : Option Instr :=
  match t.splitOn ":" with
  | ["Y", c] => c.toNat?.map .y
  | ["YA"] => some .ya
  | ["E", k] => k.toNat?.map .e
  | ["EI"] => some .ei
  | ["R", c] => c.toNat?.map .r
  | ["RA"] => some .ra
  | ["X", e] => (parseExc e).map .x
  | ["RR"] => some .rr
  | ["SF", k] => k.toNat?.map .sf
  | ["SE", k] => k.toNat?.map .se
  | ["PB"] => some .pb
  | ["J", k] => k.toNat?.map .j
  | ["M", m, k] => do some (.m (← m.toNat?) (← k.toNat?))
  | ["PH"] => some .ph
  | ["RU"] => some .ru
  | ["PN"] => some .pn
  | ["EF"] => some .ef
  | ["D", "G", f] => f.toNat?.map .dG
  | ["D", "O", items, endk, snd, thr, clo] => do
    let its ← if items = "-" then some [] else items.toList.mapM (fun c => natOf [c])
    let ek ← match endk.toList with
      | 'r' :: rest => (natOf rest).map Exc.stopIteration
      | 'x' :: rest => parseExc (String.ofList rest)
      | _ => none
    let th ← parseMode thr
    let cl ← if clo = "s" then some 3 else parseMode clo
    some (.dO ⟨its, ek, snd = "1", th, cl⟩)
  | ["RE", op] => (parseOp op).map .re
  | ["LI", k] => k.toNat?.map .li
  | ["LT", k] => k.toNat?.map .lt
  | ["IF", c, k] => do some (.iff (← c.toNat?) (← k.toNat?))
  | _ => none

def splitAt (sep : String) : List String → List (List String)
  | [] => [[]]
  | t :: rest =>
    match splitAt sep rest with
    | [] => [[t]]
    | g :: gs => if t = sep then [] :: g :: gs else (t :: g) :: gs

def renderLog (l : List Ev) : String :=
  ";".intercalate (l.map fun | .tag t => t | .unraisable e => "unr" ++ excStr e)

def renderTrace (h : List HOp) (tr : List (Out × List Ev)) : String :=
  " ".intercalate ((tr.zip (h ++ [.del])).map fun (x, o) =>
    renderLog x.2 ++ "|" ++ outStr (o = .op .close) x.1)

def devStr : Dev → String
  | .sendNonNoneUnstarted => "A" | .closeReturnsValue => "B" | .throwStopUnstarted => "C" | .stopIntoDelegation => "E"

def runFuel : Nat := 400

/-- `run <fixA fixB fixC as 0/1><g|c> <code of function 0> / <code of function 1> … ; <history>` -/
def handle : List String → String
  | "run" :: flags :: rest =>
    match splitAt ";" rest with
    | [ptoks, htoks] =>
      match (splitAt "/" ptoks).mapM (fun f => f.mapM parseInstr), htoks.mapM parseHOp, flags.toList with
      | some prog, some hist, [a, b, c, k] =>
        let fl : Flags := { fixA := a = '1', fixB := b = '1', fixC := c = '1', coro := k = 'c' }
        let B := vmBody prog
        let cy := cyTrace fl B vmOpq runFuel (.gen .created false (initState 0) .null) hist
        let py := pyTrace fl.coro B vmOpq runFuel (.gen .created (initState 0) .null) hist
        let dv := pyDevsPer fl.coro B vmOpq runFuel (.gen .created (initState 0) .null) hist
        "ok " ++ renderTrace hist cy ++ " # " ++ renderTrace hist py ++ " # " ++
          ",".intercalate (dv.map fun d => if d.isEmpty then "-" else "".intercalate (d.map devStr))
      | _, _, _ => "bad-op"
    | _ => "bad-op"
  | _ => "bad-op"

end CyVerif.C23

import CyVerif.Model.C18Percent
/-!
Model of `FormattedValueNode` (`Cython/Compiler/ExprNodes.py`) for the modelled value classes:
a Python object (`int`/`str`) or a C integer variable, and of the evaluation of a `JoinedStrNode`
over such fields (text level; the `__Pyx_PyUnicode_Join` buffer model is `C18Join`).
-/
namespace CyVerif.C18

/-- the repairs that decide how one f-string field on a C value is compiled -/
structure SrcVariant where
  parse : ParseVariant
  ord : OrdVariant
  /-- `analyse_types` does not take the C path for `!s`/`!r`/`!a` with a non-empty format spec
  (the spec formats the converted string, not the number) -/
  convAware : Bool
  deriving DecidableEq, Repr

def SrcVariant.orig : SrcVariant := ⟨.orig, .orig, false⟩
def SrcVariant.fixed : SrcVariant := ⟨.fixed, .fixed, true⟩

def isStrConv (conv : Option Char) : Bool := conv = some 's' || conv = some 'r' || conv = some 'a'

/-- `FormattedValueNode.analyse_types`: the `(format_char, width, padding_char)` of the C fast path,
`none` = the value is coerced to a Python object (generic path) -/
def fieldFastPath (sv : SrcVariant) (conv : Option Char) (spec : List Char) : Option (FmtC × Nat × Char) :=
  let cspec := if spec.isEmpty then ['d'] else spec          -- `default_format_spec`
  if sv.convAware && isStrConv conv && !spec.isEmpty then none else cFastPath sv.parse cspec

/-- `FormattedValueNode` with a C integer value (`n` bytes, `signed`) and a literal spec -/
def evalFieldCInt (sv : SrcVariant) (n : Nat) (signed : Bool) (v : Int) (conv : Option Char)
    (spec : List Char) : Option OutU :=
  match fieldFastPath sv conv spec with
  | some (ft, w, pad) => some (cFormat sv.ord n signed v ft (w : Int) pad)   -- conversion char not looked at
  | none => evalFieldObj conv spec (.int v)                  -- coerce_to_pyobject, generic path

/-- an argument of the modelled classes -/
inductive Arg where
  | obj (o : PObj)
  | cint (n : Nat) (signed : Bool) (v : Int)
  deriving Repr, DecidableEq

/-- the Python object CPython sees in place of the argument -/
def Arg.toObj : Arg → PObj
  | .obj o => o
  | .cint _ _ v => .int v

def evalFieldArg (sv : SrcVariant) (conv : Option Char) (spec : List Char) : Arg → Option OutU
  | .obj o => evalFieldObj conv spec o
  | .cint n s v => evalFieldCInt sv n s v conv spec

def evalPiecesA (sv : SrcVariant) : List Piece → List Arg → List Nat → Option OutU
  | [], _, acc => some (.text acc)
  | .lit s :: more, args, acc => evalPiecesA sv more args (acc ++ cps s)
  | .field i conv spec :: more, args, acc =>
    match args[i]? with
    | none => none
    | some a =>
      match evalFieldArg sv conv spec a with
      | none => none
      | some (.text t) => evalPiecesA sv more args (acc ++ t)
      | some e => some e

end CyVerif.C18

import CyVerif.Model.Util
/-!
# C06 (b) — `%`, `//`, `/`, `divmod` on C doubles, on the IEEE-754 *class* abstraction

A double is abstracted to its class `FC` (NaN, ±inf, ±0, ±finite-non-zero).  What the class does not
determine about a pair `(a, b)` of finite non-zero operands is supplied by `Rel` (how `|a|` compares
with `|b|`, whether `a` is an exact multiple of `b`, whether the rounded quotient under/overflows).
The transfer functions below state IEEE-754 / C99 facts about `fmod`, `+`, `-`, `*`, `/`, `floor`,
`copysign` in round-to-nearest; they are assumptions of this model, checked on real doubles by the
harness on every run.  No rounded value is modelled.
-/
namespace CyVerif.C06

inductive FC where
  | nan
  | inf (neg : Bool)
  | zero (neg : Bool)
  | fin (neg : Bool)         -- finite and non-zero
  deriving DecidableEq, Repr

/-- facts about finite non-zero `a`, `b` that the classes do not determine -/
inductive Rel where
  | small (under : Bool)           -- |a| < |b|;  `under`: a / b rounds to ±0
  | multiple (over : Bool)         -- a = k·b, k integer, |k| ≥ 1;  `over`: a / b rounds to ±inf
  | other (over over2 : Bool)      -- |a| > |b|, not a multiple;  `over2`: (a − fmod(a,b)) / b rounds to ±inf
  deriving DecidableEq, Repr

namespace FC
def isNan : FC → Bool | nan => true | _ => false
def isZero : FC → Bool | zero _ => true | _ => false      -- `x == 0`
def truthy (x : FC) : Bool := !x.isZero                   -- `if (x)`; NaN is true
def lt0 : FC → Bool | inf n => n | fin n => n | _ => false -- `x < 0`
/-- sign bit, for the operands on which `copysign` is evaluated (never NaN there) -/
def signbit : FC → Bool | inf n => n | fin n => n | zero n => n | nan => false
end FC
open FC

/-- C `fmod(a, b)` (C99 F.9.7.1): exact, sign of `a`, `|result| < |b|` -/
def fmodC (a b : FC) (rel : Rel) : FC :=
  match a, b with
  | .nan, _ => .nan
  | _, .nan => .nan
  | .inf _, _ => .nan
  | _, .zero _ => .nan
  | .zero s, _ => .zero s
  | .fin s, .inf _ => .fin s
  | .fin s, .fin _ =>
    match rel with
    | .small _ => .fin s
    | .multiple _ => .zero s
    | .other _ _ => .fin s

/-- `a / b` -/
def divC (a b : FC) (rel : Rel) : FC :=
  match a, b with
  | .nan, _ => .nan
  | _, .nan => .nan
  | .inf _, .inf _ => .nan
  | .zero _, .zero _ => .nan
  | .inf s, .zero t => .inf (s != t)
  | .inf s, .fin t => .inf (s != t)
  | .zero s, .inf t => .zero (s != t)
  | .zero s, .fin t => .zero (s != t)
  | .fin s, .inf t => .zero (s != t)
  | .fin s, .zero t => .inf (s != t)
  | .fin s, .fin t =>
    match rel with
    | .small u => if u then .zero (s != t) else .fin (s != t)
    | .multiple o => if o then .inf (s != t) else .fin (s != t)
    | .other o _ => if o then .inf (s != t) else .fin (s != t)

/-- `floor(a / b)` given the class of the quotient: a finite quotient has magnitude < 1 exactly for `Rel.small` -/
def floorQuot (q : FC) (rel : Rel) : FC :=
  match q with
  | .fin n =>
    match rel with
    | .small _ => if n then .fin true else .zero false      -- −1.0 / +0.0
    | _ => .fin n
  | x => x

/-- `(double)c * b` for a C truth value `c` -/
def mulBool (c : Bool) (b : FC) : FC :=
  if c then b else
  match b with
  | .nan => .nan
  | .inf _ => .nan                -- 0.0 * inf
  | .zero s => .zero s
  | .fin s => .zero s

/-- `r + t` where `r = fmod(a, b)` and `t` is `b` or `±0` or NaN: uses `|r| < |b|` -/
def addRem (r t : FC) : FC :=
  match r, t with
  | .nan, _ => .nan
  | _, .nan => .nan
  | .inf s, _ => .inf s                       -- not produced by fmod; kept total: inf + finite
  | .zero s, .zero u => .zero (s && u)
  | .zero _, x => x
  | .fin s, .zero _ => .fin s
  | .fin _, .inf u => .inf u
  | .fin s, .fin u => if s = u then .fin s else .fin u     -- opposite signs: |r| < |t|, sign of t

/-- `vx - mod` with `mod = fmod(vx, wx)` -/
def subMod (a b : FC) (rel : Rel) : FC :=
  match fmodC a b rel with
  | .nan => .nan
  | _ =>
    match a, b with
    | .zero _, _ => .zero false               -- (±0) − (±0) with equal signs
    | .fin _, .inf _ => .zero false           -- a − a
    | .fin s, .fin _ =>
      match rel with
      | .small _ => .zero false               -- a − a
      | _ => .fin s
    | x, _ => x

/-- `(vx - mod) / wx`: the dividend is `+0` or has magnitude ≥ |wx| -/
def divShifted (d b : FC) (rel : Rel) : FC :=
  match d, b with
  | .nan, _ => .nan
  | _, .nan => .nan
  | .zero s, .inf t => .zero (s != t)
  | .zero s, .fin t => .zero (s != t)
  | .fin s, .fin t =>
    match rel with
    | .multiple o => if o then .inf (s != t) else .fin (s != t)
    | .other _ o2 => if o2 then .inf (s != t) else .fin (s != t)
    | .small _ => .fin (s != t)
  | x, _ => x

/-- `div - 1.0`; a positive finite `div` is never decremented by the algorithm (`none`) -/
def subOne : FC → Option FC
  | .nan => some .nan
  | .inf s => some (.inf s)
  | .zero _ => some (.fin true)
  | .fin true => some (.fin true)
  | .fin false => none

/-! ## CPython 3.12 (`Objects/floatobject.c`) -/

/-- `float_rem` after the zero test -/
def pyRem (a b : FC) (rel : Rel) : FC :=
  let m := fmodC a b rel
  if m.truthy then
    if b.lt0 != m.lt0 then addRem m b else m
  else .zero b.signbit                       -- copysign(0.0, wx)

/-- the quotient of `_float_div_mod` -/
def pyQuot (a b : FC) (rel : Rel) : Option FC :=
  let m := fmodC a b rel
  let d0 := divShifted (subMod a b rel) b rel
  let d := if m.truthy && (b.lt0 != m.lt0) then subOne d0 else some d0
  match d with
  | none => none
  | some d =>
    if d.truthy then some d                  -- floor() and the snap to the nearest integer keep the class (|div| ≥ 1)
    else some (.zero (divC a b rel).signbit) -- copysign(0.0, vx / wx)

def zde : String := "ZeroDivisionError"

def pyMod (a b : FC) (rel : Rel) : Res FC :=
  if b.isZero then .err zde else .ok (pyRem a b rel)

def pyFloorDiv (a b : FC) (rel : Rel) : Res (Option FC) :=
  if b.isZero then .err zde else .ok (pyQuot a b rel)

def pyTrueDiv (a b : FC) (rel : Rel) : Res FC :=
  if b.isZero then .err zde else .ok (divC a b rel)

def pyDivmod (a b : FC) (rel : Rel) : Res (Option FC × FC) :=
  if b.isZero then .err zde else .ok (pyQuot a b rel, pyRem a b rel)

/-! ## the code Cython emits for C doubles (cdivision off) -/

/-- which text `CMath.c:ModFloat` / `ExprNodes.DivNode.calculate_result_code` has -/
inductive Variant where
  | pinned      -- `r += ((r != 0) & ((r < 0) ^ (b < 0))) * b`;  `floor(a / b)`
  | port        -- transcription of `float_rem` / `_float_div_mod`
  deriving DecidableEq, Repr

/-- `__Pyx_mod_double(a, b)` -/
def cyRem (v : Variant) (a b : FC) (rel : Rel) : FC :=
  match v with
  | .pinned =>
    let r := fmodC a b rel
    let c := r.truthy && (r.lt0 != b.lt0)
    addRem r (mulBool c b)
  | .port =>
    let r := fmodC a b rel
    if r.truthy then
      if b.lt0 != r.lt0 then addRem r b else r
    else .zero b.signbit

/-- the expression emitted for `a // b` -/
def cyQuot (v : Variant) (a b : FC) (rel : Rel) : Option FC :=
  match v with
  | .pinned => some (floorQuot (divC a b rel) rel)
  | .port =>
    let r := fmodC a b rel
    let d0 := divShifted (subMod a b rel) b rel
    let d := if r.truthy && (b.lt0 != r.lt0) then subOne d0 else some d0
    match d with
    | none => none
    | some d =>
      if d.truthy then some d
      else some (.zero (divC a b rel).signbit)

/-- `if (unlikely(b == 0)) { PyErr_SetString(PyExc_ZeroDivisionError, …); goto error; }` precedes each -/
def cyMod (v : Variant) (a b : FC) (rel : Rel) : Res FC :=
  if b.isZero then .err zde else .ok (cyRem v a b rel)

def cyFloorDiv (v : Variant) (a b : FC) (rel : Rel) : Res (Option FC) :=
  if b.isZero then .err zde else .ok (cyQuot v a b rel)

def cyTrueDiv (a b : FC) (rel : Rel) : Res FC :=
  if b.isZero then .err zde else .ok (divC a b rel)

/-- `__Pyx_divmod_float_double` (`Builtins.c:divmod_float`), for `divmod(a, b)` on C doubles -/
def cyDivmod (a b : FC) (rel : Rel) : Res (Option FC × FC) :=
  if b.isZero then .err zde else
  let r := fmodC a b rel
  let d0 := divShifted (subMod a b rel) b rel
  let adj := r.truthy && (b.lt0 != r.lt0)
  let r' := if r.truthy then (if adj then addRem r b else r) else .zero b.signbit
  let d := if adj then subOne d0 else some d0
  let q := match d with
    | none => none
    | some d => if d.truthy then some d else some (.zero (divC a b rel).signbit)
  .ok (q, r')

/-! ## line protocol helpers -/
def FC.render : FC → String
  | .nan => "nan"
  | .inf n => if n then "-inf" else "+inf"
  | .zero n => if n then "-0" else "+0"
  | .fin n => if n then "-fin" else "+fin"

def parseFC : String → Option FC
  | "nan" => some .nan
  | "+inf" => some (.inf false) | "-inf" => some (.inf true)
  | "+0" => some (.zero false) | "-0" => some (.zero true)
  | "+fin" => some (.fin false) | "-fin" => some (.fin true)
  | _ => none

/-- `s<u>` | `m<o>` | `o<o><o2>` with 0/1 flags -/
def parseRel : String → Option Rel
  | "s0" => some (.small false) | "s1" => some (.small true)
  | "m0" => some (.multiple false) | "m1" => some (.multiple true)
  | "o00" => some (.other false false) | "o10" => some (.other true false)
  | "o01" => some (.other false true) | "o11" => some (.other true true)
  | _ => none

def renderOpt : Option FC → String
  | some c => c.render
  | none => "undetermined"

def renderRes : Res FC → String
  | .ok c => "ok " ++ c.render
  | .err e => "err " ++ e

def renderResOpt : Res (Option FC) → String
  | .ok c => "ok " ++ renderOpt c
  | .err e => "err " ++ e

def parseVariant : String → Option Variant
  | "pinned" => some .pinned | "port" => some .port | _ => none

/-- `<op> <variant> <a> <b> <rel>` -/
def handleArith : List String → Option String
  | [op, v, a, b, rel] =>
    match parseVariant v, parseFC a, parseFC b, parseRel rel with
    | some v, some a, some b, some rel =>
      match op with
      | "cymod" => some (renderRes (cyMod v a b rel))
      | "pymod" => some (renderRes (pyMod a b rel))
      | "cyfloordiv" => some (renderResOpt (cyFloorDiv v a b rel))
      | "pyfloordiv" => some (renderResOpt (pyFloorDiv a b rel))
      | "cytruediv" => some (renderRes (cyTrueDiv a b rel))
      | "pytruediv" => some (renderRes (pyTrueDiv a b rel))
      | "cydivmod" =>
        some (match cyDivmod a b rel with
          | .ok (q, r) => "ok " ++ renderOpt q ++ " " ++ r.render
          | .err e => "err " ++ e)
      | "pydivmod" =>
        some (match pyDivmod a b rel with
          | .ok (q, r) => "ok " ++ renderOpt q ++ " " ++ r.render
          | .err e => "err " ++ e)
      | "fmod" => some ("ok " ++ (fmodC a b rel).render)
      | "div" => some ("ok " ++ (divC a b rel).render)
      | _ => none
    | _, _, _, _ => none
  | _ => none

end CyVerif.C06

import CyVerif.Model.Util
/-!
Model of `Cython/Build/Dependencies.py: strip_string_literals(code, prefix='__Pyx_L')`
and of the ways its result is substituted back.

Text is `List Char` (Python `str` = sequence of code points).  The two nested
scanner functions `parse_code` / `parse_string` are modelled on the *suffix*
representation: `pend = code[start:charpos]`, `rest = code[charpos:]`.  The
three `re.search` calls are transcribed as anchored matchers tried at every
position from left to right (`search`).  Both scanners are fuelled by the
remaining length; running out of fuel, and every branch that the Python code
cannot reach, DROPS text — so the accounting theorem (`Props/C47.lean`) is
also the proof that those branches are never taken.

The output is a list of pieces in the order of `new_code.append(...)`:
`kept s` — a slice of the input copied verbatim (or the literal `'{'` /
`quote_type` strings the code appends), `lit s` — a slice replaced by a fresh
label `f"{prefix}{counter}_"` and recorded in the `literals` dict.
-/
namespace CyVerif.C47

inductive Piece where
  | kept (s : List Char)
  | lit (s : List Char)
  deriving DecidableEq, Repr

/-- Tokens of the three regexes (`_FIND_TOKEN`, `_FIND_STRING_TOKEN`, `_FIND_FSTRING_TOKEN`). -/
inductive Tok where
  | comment                               -- `(?P<comment> [#] )`
  | brace (c : Char)                      -- `(?P<brace> [{}] )`
  | braces (run : List Char)              -- `(?P<braces> [{]+ | [}]+ )`
  | escape (bs : List Char) (q : Char)    -- `(?P<escape> [\\]+ ) (?P<escaped_quote> ['"] )`
  | quote (f : Bool) (run : List Char)    -- `(?P<fstring> f )? (?P<quote> '+ | "+ )`
  deriving DecidableEq, Repr

def isQuote (c : Char) : Bool := c == '\'' || c == '"'

def fch (f : Bool) : List Char := if f then ['f'] else []

def Tok.chars : Tok → List Char
  | .comment => ['#']
  | .brace c => [c]
  | .braces run => run
  | .escape bs q => bs ++ [q]
  | .quote f run => fch f ++ run

/-- greedy `c+` at the head of the text: the run and what follows -/
def spanEq (c : Char) (l : List Char) : List Char × List Char :=
  (l.takeWhile (· == c), l.dropWhile (· == c))

/-- `'+ | "+` anchored -/
def mRun : List Char → Option (List Char × List Char)
  | [] => none
  | q :: cs => if isQuote q then some (spanEq q (q :: cs)) else none

/-- `(?P<fstring> f )? (?P<quote> '+ | "+ )` anchored -/
def mQuote : List Char → Option (Tok × List Char)
  | [] => none
  | c :: cs =>
    if c = 'f' then
      match mRun cs with
      | some (run, post) => some (.quote true run, post)
      | none => none          -- `f?` gives the `f` back, but `f` is not a quote
    else
      match mRun (c :: cs) with
      | some (run, post) => some (.quote false run, post)
      | none => none

/-- `_FIND_TOKEN` anchored -/
def mCode : List Char → Option (Tok × List Char)
  | [] => none
  | c :: cs =>
    if c = '#' then some (.comment, cs)
    else if c = '{' ∨ c = '}' then some (.brace c, cs)
    else mQuote (c :: cs)

/-- `(?P<escape> [\\]+ ) (?P<escaped_quote> ['"] )` anchored: the greedy run of backslashes must be
followed by a quote character (giving back backslashes never helps: a backslash is not a quote) -/
def mEscape : List Char → Option (Tok × List Char)
  | [] => none
  | c :: cs =>
    if c = '\\' then
      match spanEq '\\' (c :: cs) with
      | (bs, q :: post) => if isQuote q then some (.escape bs q, post) else none
      | (_, []) => none
    else none

/-- `(?P<braces> [{]+ | [}]+ )` anchored -/
def mBraces : List Char → Option (Tok × List Char)
  | [] => none
  | c :: cs =>
    if c = '{' ∨ c = '}' then
      let (run, post) := spanEq c (c :: cs)
      some (.braces run, post)
    else none

/-- `_FIND_STRING_TOKEN` anchored -/
def mStr (l : List Char) : Option (Tok × List Char) :=
  match mEscape l with
  | some r => some r
  | none => mQuote l

/-- `_FIND_FSTRING_TOKEN` anchored -/
def mFStr (l : List Char) : Option (Tok × List Char) :=
  match mBraces l with
  | some r => some r
  | none => mStr l

/-- `regex.search(code, charpos)`: leftmost position at which the anchored matcher succeeds;
returns (skipped text, token, text after the token). -/
def search (m : List Char → Option (Tok × List Char)) : List Char → Option (List Char × Tok × List Char)
  | [] => none
  | c :: cs =>
    match m (c :: cs) with
    | some (t, post) => some ([], t, post)
    | none =>
      match search m cs with
      | some (pre, t, post) => some (c :: pre, t, post)
      | none => none

/-- result of a scanner call: pieces appended, and the returned `charpos`
(`none` = -1, `some rest` = the text from `charpos` on) -/
abbrev Out := List Piece × Option (List Char)

/-- the decision of `parse_code` on a run of quote characters (`quote = token['quote']`):
```
if len(quote) >= 6: quote = quote[:len(quote) % 6]      # ignore empty triple-quoted strings
if quote and len(quote) != 2:
    if len(quote) > 3: end -= len(quote) - 3; quote = quote[:3]
```
`some (quote_type, back)`: a literal opens, `end` is moved back by `back`; `none`: nothing opens. -/
def quoteKind (run : List Char) : Option (List Char × Nat) :=
  let quote := if run.length ≥ 6 then run.take (run.length % 6) else run
  if quote ≠ [] ∧ quote.length ≠ 2 then
    some (if quote.length > 3 then quote.take 3 else quote, if quote.length > 3 then quote.length - 3 else 0)
  else none

def litIf (body : List Char) : List Piece := if body = [] then [] else [.lit body]

mutual
/-- `parse_string(quote_type, start, is_fstring)`; `qs = quote_type`. -/
def parseString (fuel : Nat) (qs : List Char) (isF : Bool) (pend rest : List Char) : Out :=
  match fuel with
  | 0 => ([], none)
  | fuel + 1 =>
    match search (if isF then mFStr else mStr) rest with
    | none => ([.lit (pend ++ rest)], none)                  -- unclosed literal: label code[start:]
    | some (pre, tok, post) =>
      match tok with
      | .escape bs eq =>
        if bs.length % 2 = 0 ∧ some eq = qs.head? then
          parseString fuel qs isF (pend ++ pre ++ bs) (eq :: post)      -- charpos -= 1
        else
          parseString fuel qs isF (pend ++ pre ++ bs ++ [eq]) post
      | .braces run =>
        if isF then
          if run.length % 2 = 0 then
            parseString fuel qs isF (pend ++ pre ++ run) post           -- continue
          else if run.getLast? = some '{' then
            let ps1 := litIf (pend ++ pre ++ run.dropLast)              -- if start < charpos-1
            let (ps2, r) := parseCode fuel true [] post
            match r with
            | none => (ps1 ++ [.kept ['{']] ++ ps2, none)
            | some rest' =>
              let (ps3, r3) := parseString fuel qs isF [] rest'
              (ps1 ++ [.kept ['{']] ++ ps2 ++ ps3, r3)
          else
            parseString fuel qs isF (pend ++ pre ++ run) post
        else ([], none)                                                  -- not produced by `mStr`
      | .quote f run =>
        if qs.isPrefixOf run then                                        -- token['quote'].startswith(quote_type)
          let ps1 := litIf (pend ++ pre ++ fch f)                        -- if charpos > start
          (ps1 ++ [.kept qs], some (run.drop qs.length ++ post))
        else
          parseString fuel qs isF (pend ++ pre ++ fch f ++ run) post
      | _ => ([], none)                                                  -- not produced by `mStr`/`mFStr`

/-- `parse_code(start, in_fstring)` -/
def parseCode (fuel : Nat) (inF : Bool) (pend rest : List Char) : Out :=
  match fuel with
  | 0 => ([], none)
  | fuel + 1 =>
    match search mCode rest with
    | none => ([.kept (pend ++ rest)], none)
    | some (pre, tok, post) =>
      match tok with
      | .quote f run =>
        match quoteKind run with
        | some (qs, back) =>
          let keptp := pend ++ pre ++ fch f ++ run.take (run.length - back)   -- code[start:end]
          let (ps, r) := parseString fuel qs f [] (run.drop (run.length - back) ++ post)
          match r with
          | none => (.kept keptp :: ps, none)
          | some rest' =>
            let (ps2, r2) := parseCode fuel inF [] rest'
            (.kept keptp :: ps ++ ps2, r2)
        | none =>
          parseCode fuel inF (pend ++ pre ++ fch f ++ run) post
      | .comment =>
        let body := post.takeWhile (· != '\n')
        match post.dropWhile (· != '\n') with                            -- code.find('\n', end)
        | [] => ([.kept (pend ++ pre ++ ['#']), .lit body], none)        -- EOF
        | n :: after =>
          let (ps, r) := parseCode fuel inF [] (n :: after)
          (.kept (pend ++ pre ++ ['#']) :: .lit body :: ps, r)
      | .brace c =>
        if inF then
          if c = '}' then
            ([.kept (pend ++ pre ++ [c])], some post)                    -- closing '}' of the f-string field
          else
            let (ps, r) := parseCode fuel true [] post
            match r with
            | none => (.kept (pend ++ pre ++ [c]) :: ps, none)
            | some rest' =>
              let (ps2, r2) := parseCode fuel inF [] rest'
              (.kept (pend ++ pre ++ [c]) :: ps ++ ps2, r2)
        else
          parseCode fuel inF (pend ++ pre ++ [c]) post
      | _ => ([], none)                                                  -- not produced by `mCode`
end

/-- the pieces appended by `strip_string_literals(code)` -/
def pieces (code : List Char) : List Piece := (parseCode (code.length + 1) false [] code).1

/-- `f"{prefix}{counter}_"` -/
def label (p : List Char) (k : Nat) : List Char := p ++ Nat.toDigits 10 k ++ ['_']

/-- `"".join(new_code)` when `k` labels were handed out before -/
def render (p : List Char) : Nat → List Piece → List Char
  | _, [] => []
  | k, .kept s :: ps => s ++ render p k ps
  | k, .lit _ :: ps => label p (k + 1) ++ render p (k + 1) ps

/-- values of the `literals` dict in insertion order (key of the i-th is `label p (i+1)`) -/
def lits : List Piece → List (List Char)
  | [] => []
  | .kept _ :: ps => lits ps
  | .lit s :: ps => s :: lits ps

/-- every label replaced by the slice it stands for -/
def expand : List Piece → List Char
  | [] => []
  | .kept s :: ps => s ++ expand ps
  | .lit s :: ps => s ++ expand ps

def defaultPrefix : List Char := "__Pyx_L".toList

/-- `strip_string_literals(code, prefix)` = (stripped text, literal values in label order) -/
def strip (p code : List Char) : List Char × List (List Char) :=
  (render p 0 (pieces code), lits (pieces code))

/-! ### substituting the labels back -/

/-- Python `s.replace(old, new)` for non-empty `old`: leftmost non-overlapping occurrences.
`skip` = characters of a matched occurrence still to be dropped. -/
def replaceGo (old new : List Char) : Nat → List Char → List Char
  | _, [] => []
  | skip + 1, _ :: cs => replaceGo old new skip cs
  | 0, c :: cs =>
    if old.isPrefixOf (c :: cs) then new ++ replaceGo old new (old.length - 1) cs
    else c :: replaceGo old new 0 cs

def replaceAll (old new s : List Char) : List Char := replaceGo old new 0 s

/-- `Inline.py`: `for key, value in literals.items(): module_code = module_code.replace(key, value)`;
`k` labels were already substituted. -/
def unstripSeq (p : List Char) : Nat → List (List Char) → List Char → List Char
  | _, [], s => s
  | k, v :: vs, s => unstripSeq p (k + 1) vs (replaceAll (label p (k + 1)) v s)

/-- single left-to-right pass that expects the labels in counter order -/
def unstripOne (p : List Char) : Nat → List (List Char) → Nat → List Char → List Char
  | _, _, _, [] => []
  | k, vs, skip + 1, _ :: cs => unstripOne p k vs skip cs
  | _, [], 0, c :: cs => c :: cs
  | k, v :: vs, 0, c :: cs =>
    if (label p (k + 1)).isPrefixOf (c :: cs) then
      v ++ unstripOne p (k + 1) vs ((label p (k + 1)).length - 1) cs
    else c :: unstripOne p k (v :: vs) 0 cs

/-! ### candidate repair: choose a prefix that does not occur in the text -/

def isInfixB (p s : List Char) : Bool :=
  match s with
  | [] => p.isEmpty
  | c :: cs => p.isPrefixOf (c :: cs) || isInfixB p cs

/-- `while prefix in code: prefix += '_'` (at most `fuel` rounds) -/
def freshPrefix : Nat → List Char → List Char → List Char
  | 0, p, _ => p
  | fuel + 1, p, code => if isInfixB p code then freshPrefix fuel (p ++ ['_']) code else p

def stripFresh (code : List Char) : List Char × List Char × List (List Char) :=
  let p := freshPrefix (code.length + 1) defaultPrefix code
  (p, strip p code)

/-! ### reference lexer (specification side of the completeness theorem)

Character-level lexer for Python source *without f-strings*: code, `#` comments to end of line,
string literals with one or three quote characters, backslash escaping the next character.
`none` = the text contains an `f` directly before an opening quote (class not covered).
Unterminated literals extend to the end of the text.  The result marks the characters that belong
to a comment body or a string-literal body (delimiters `#`, quotes and prefixes are not marked). -/

inductive LexSt where
  | code
  | comment
  | str (q : Char) (triple : Bool)
  | esc (q : Char) (triple : Bool)        -- the previous character was an unescaped backslash
  deriving DecidableEq, Repr

/-- mask of literal/comment body characters; `skip` = delimiter characters still to pass unmarked -/
def refLex : LexSt → Nat → List Char → Option (List Bool)
  | _, _, [] => some []
  | st, skip + 1, _ :: cs => (refLex st skip cs).map (false :: ·)
  | .code, 0, c :: cs =>
    if c = '#' then (refLex .comment 0 cs).map (false :: ·)
    else if isQuote c then
      match cs with
      | c1 :: c2 :: _ =>
        if c1 = c ∧ c2 = c then (refLex (.str c true) 2 cs).map (false :: ·)      -- triple quote opens
        else if c1 = c then (refLex .code 1 cs).map (false :: ·)                    -- empty literal
        else (refLex (.str c false) 0 cs).map (false :: ·)
      | [c1] =>
        if c1 = c then (refLex .code 1 cs).map (false :: ·)
        else (refLex (.str c false) 0 cs).map (false :: ·)
      | [] => some [false]
    else if c = 'f' then
      match cs with
      | c1 :: _ => if isQuote c1 then none else (refLex .code 0 cs).map (false :: ·)
      | [] => some [false]
    else (refLex .code 0 cs).map (false :: ·)
  | .comment, 0, c :: cs =>
    if c = '\n' then (refLex .code 0 cs).map (false :: ·)
    else (refLex .comment 0 cs).map (true :: ·)
  | .esc q triple, 0, _ :: cs => (refLex (.str q triple) 0 cs).map (true :: ·)
  | .str q triple, 0, c :: cs =>
    if c = '\\' then (refLex (.esc q triple) 0 cs).map (true :: ·)
    else if c = q then
      if triple then
        match cs with
        | c1 :: c2 :: _ =>
          if c1 = q ∧ c2 = q then (refLex .code 2 cs).map (false :: ·)
          else (refLex (.str q triple) 0 cs).map (true :: ·)
        | _ => (refLex (.str q triple) 0 cs).map (true :: ·)
      else (refLex .code 0 cs).map (false :: ·)
    else (refLex (.str q triple) 0 cs).map (true :: ·)

/-- mask of the characters the scanner copies verbatim (`true` = kept) -/
def keptMask : List Piece → List Bool
  | [] => []
  | .kept s :: ps => s.map (fun _ => true) ++ keptMask ps
  | .lit s :: ps => s.map (fun _ => false) ++ keptMask ps

/-! ### line protocol -/

def hexOf (n : Nat) : String := String.ofList (Nat.toDigits 16 n)

def encode (s : List Char) : String :=
  if s.isEmpty then "-" else ".".intercalate (s.map fun c => hexOf c.toNat)

def parseHexNat (s : String) : Option Nat :=
  if s.isEmpty then none else
  s.toList.foldl (fun acc c => match acc, hexVal c with
    | some a, some d => some (a * 16 + d)
    | _, _ => none) (some 0)

def decode (s : String) : Option (List Char) :=
  if s == "-" then some [] else
  (s.splitOn ".").foldr (fun t acc => match parseHexNat t, acc with
    | some n, some l => if h : n.isValidChar then some (Char.ofNatAux n h :: l) else none
    | _, _ => none) (some [])

def shape : List Piece → String
  | ps => ",".intercalate (ps.map fun
    | .kept s => s!"k{s.length}"
    | .lit s => s!"l{s.length}")

def maskStr (m : List Bool) : String := String.ofList (m.map fun b => if b then '1' else '0')

def renderStrip (p code : List Char) : String :=
  let ps := pieces code
  let ls := lits ps
  s!"ok {encode (render p 0 ps)} {ls.length} {if ls.isEmpty then "-" else "|".intercalate (ls.map encode)} {if ps.isEmpty then "-" else shape ps}"

def handle : List String → String
  | ["strip", c] =>
    match decode c with
    | some code => renderStrip defaultPrefix code
    | none => "bad-op"
  | ["stripp", p, c] =>
    match decode p, decode c with
    | some p, some code => renderStrip p code
    | _, _ => "bad-op"
  | ["unseq", c] =>
    match decode c with
    | some code => let (s, ls) := strip defaultPrefix code; s!"ok {encode (unstripSeq defaultPrefix 0 ls s)}"
    | none => "bad-op"
  | ["unone", c] =>
    match decode c with
    | some code => let (s, ls) := strip defaultPrefix code; s!"ok {encode (unstripOne defaultPrefix 0 ls 0 s)}"
    | none => "bad-op"
  | ["fresh", c] =>
    match decode c with
    | some code =>
      let (p, s, ls) := stripFresh code
      s!"ok {encode p} {encode s} {encode (unstripSeq p 0 ls s)}"
    | none => "bad-op"
  | ["reflex", c] =>
    match decode c with
    | some code =>
      match refLex .code 0 code with
      | some m => s!"ok {if m.isEmpty then "-" else maskStr m}"
      | none => "ok fstring"
    | none => "bad-op"
  | ["replace", o, n, s] =>
    match decode o, decode n, decode s with
    | some o, some n, some s => if o.isEmpty then "bad-op" else s!"ok {encode (replaceAll o n s)}"
    | _, _, _ => "bad-op"
  | _ => "bad-op"

end CyVerif.C47

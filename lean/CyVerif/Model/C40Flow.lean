import CyVerif.Model.C40
/-!
C40 model, part 2: `MarkOverflowingArithmetic`, the assignment records and reaching definitions of
`FlowControl` for the structured mini-language.
-/
namespace CyVerif.C40

/-! ### MarkOverflowingArithmetic -/

/-- names visited while the visitor's `might_overflow` flag is set -/
def markE (cfg : Cfg) : Expr → Bool → List Nat → List Nat
  | .name v _, flag, acc => if flag then v :: acc else acc
  | .bin op _ a b, flag, acc =>
    let f := if op.isBitwise then flag else true        -- `&|^` neutral, every other binop dangerous
    markE cfg b f (markE cfg a f acc)
  | .un op a, flag, acc => markE cfg a (if op = .neg then true else flag) acc   -- UnaryMinus dangerous, other unops neutral
  | .abs a, _, acc => markE cfg a true acc                   -- call of `abs`: dangerous
  | .call a, flag, acc => markE cfg a flag acc               -- other calls: neutral
  | .len a, flag, acc => markE cfg a flag acc
  | .cmp _ a b, flag, acc =>                              -- any other node: safe (repaired tree: neutral)
    let f := cfg.cmpNeutral && flag
    markE cfg b f (markE cfg a f acc)
  | .idx a b, _, acc => markE cfg b false (markE cfg a false acc)
  | .next a, _, acc => markE cfg a false acc
  | _, _, acc => acc

def isLongLiteral (n : Int) : Bool := ¬(-2147483648 ≤ n ∧ n < 2147483648)

def markS (cfg : Cfg) : Stmt → List Nat → List Nat
  | .skip, acc => acc
  | .seq a b, acc => markS cfg b (markS cfg a acc)
  | .assign v _ e, acc =>
    let acc := match e with
      | .int n => if isLongLiteral n then v :: acc else acc      -- `visit_assignment`
      | _ => acc
    markE cfg e false acc
  | .aug v _ _ _ e, acc => markE cfg e true (v :: acc)               -- InPlaceAssignmentNode: dangerous
  | .forr _ _ a1 a2 a3 body, acc =>
    let acc := markE cfg a1 false acc
    let acc := match a2 with | some a => markE cfg a false acc | none => acc
    let acc := match a3 with | some a => markE cfg a false acc | none => acc
    markS cfg body acc
  | .forin _ _ e body, acc => markS cfg body (markE cfg e false acc)
  | .while c body, acc => markS cfg body (markE cfg c false acc)
  | .ite c a b, acc => markS cfg b (markS cfg a (markE cfg c false acc))
  | .ret e, acc => markE cfg e false acc

def mightOverflow (cfg : Cfg) (p : Stmt) (v : Nat) : Bool := (markS cfg p []).contains v

/-! ### assignment records (`entry.cf_assignments`, creation order) -/

structure Assmt where
  d : Nat
  v : Nat
  rhs : Expr
  deriving Repr

/-- the constant folder applied to the synthetic `start + step` of a 3-argument range -/
def foldAdd (a b : Expr) : Expr :=
  match a, b with
  | .int x, .int y =>
    if isLongLiteral x ∨ isLongLiteral y ∨ isLongLiteral (x + y) then .typed .obj else .typed .clong
  | _, _ => .bin .add false a b

def forrAssmts (v d : Nat) (a1 : Expr) (a2 a3 : Option Expr) : List Assmt :=
  match a2, a3 with
  | none, _ => [⟨d, v, a1⟩]
  | some b, none => [⟨d, v, a1⟩, ⟨d + 1, v, b⟩]
  | some b, some c => [⟨d, v, a1⟩, ⟨d + 1, v, b⟩, ⟨d + 2, v, foldAdd a1 c⟩]

def assmts : Stmt → List Assmt
  | .skip => []
  | .seq a b => assmts a ++ assmts b
  | .assign v d e => [⟨d, v, e⟩]
  | .aug v d id op e => [⟨d, v, .bin op true (.name v id) e⟩]
  | .forr v d a1 a2 a3 body => forrAssmts v d a1 a2 a3 ++ assmts body
  | .forin v d e body => ⟨d, v, .next e⟩ :: assmts body
  | .while _ body => assmts body
  | .ite _ a b => assmts a ++ assmts b
  | .ret _ => []

/-! ### small structural list helpers (kernel-reducible, so that `decide` can run the inferer) -/

def insertNat (x : Nat) : List Nat → List Nat
  | [] => [x]
  | y :: ys => if x ≤ y then x :: y :: ys else y :: insertNat x ys

def sortNat : List Nat → List Nat
  | [] => []
  | x :: xs => insertNat x (sortNat xs)

def dedupNat : List Nat → List Nat
  | [] => []
  | x :: xs => if xs.contains x then dedupNat xs else x :: dedupNat xs

/-! ### reaching definitions -/

/-- `none` = "uninitialised" -/
abbrev Defs := List (Option Nat)
abbrev St := List (Nat × Defs)         -- variable ↦ reaching definitions; absent = `[none]`
abbrev Rd := List (Nat × Defs)         -- name-node id ↦ reaching definitions (entries are unioned)

def stGet (st : St) (v : Nat) : Defs := (st.lookup v).getD [none]
def stSet (st : St) (v : Nat) (ds : Defs) : St := (v, ds) :: st.filter (·.1 ≠ v)
def defsUnion (a b : Defs) : Defs := a ++ b.filter (fun x => ¬ a.contains x)
def stJoin (a b : St) : St :=
  let vars := dedupNat (a.map (·.1) ++ b.map (·.1))
  vars.map fun v => (v, defsUnion (stGet a v) (stGet b v))

def refsE (st : St) : Expr → Rd → Rd
  | .name v id, rd => if v < npar then rd else (id, stGet st v) :: rd
  | .bin _ _ a b, rd => refsE st b (refsE st a rd)
  | .un _ a, rd => refsE st a rd
  | .cmp _ a b, rd => refsE st b (refsE st a rd)
  | .call a, rd => refsE st a rd
  | .len a, rd => refsE st a rd
  | .abs a, rd => refsE st a rd
  | .idx a b, rd => refsE st b (refsE st a rd)
  | .next a, rd => refsE st a rd
  | _, rd => rd

def refsO (st : St) : Option Expr → Rd → Rd
  | some e, rd => refsE st e rd
  | none, rd => rd

/-- last assignment record of a range loop target (the only one that reaches the body) -/
def forrLast (d : Nat) (a2 a3 : Option Expr) : Nat :=
  match a2, a3 with
  | none, _ => d
  | some _, none => d + 1
  | some _, some _ => d + 2

/-- One pass suffices for gen/kill problems after two iterations of a loop body; three are run
(the third records the references under the final state). -/
def flow : Stmt → St → Rd → St × Rd
  | .skip, st, rd => (st, rd)
  | .seq a b, st, rd => let (st1, rd1) := flow a st rd; flow b st1 rd1
  | .assign v d e, st, rd => (stSet st v [some d], refsE st e rd)
  | .aug v d id _ e, st, rd => (stSet st v [some d], refsE st e (refsE st (.name v id) rd))
  | .forr v d a1 a2 a3 body, st, rd =>
    let it := fun (cur : St) (rd : Rd) =>
      let rd := refsO cur a3 (refsO cur a2 (refsE cur a1 rd))
      let (bend, rd) := flow body (stSet cur v [some (forrLast d a2 a3)]) rd
      (stJoin st bend, rd)
    let (c1, rd) := it st rd
    let (c2, rd) := it c1 rd
    it c2 rd
  | .forin v d e body, st, rd =>
    let it := fun (cur : St) (rd : Rd) =>
      let rd := refsE cur e rd
      let (bend, rd) := flow body (stSet cur v [some d]) rd
      (stJoin st bend, rd)
    let (c1, rd) := it st rd
    let (c2, rd) := it c1 rd
    it c2 rd
  | .while c body, st, rd =>
    let it := fun (cur : St) (rd : Rd) =>
      let rd := refsE cur c rd
      let (bend, rd) := flow body cur rd
      (stJoin st bend, rd)
    let (c1, rd) := it st rd
    let (c2, rd) := it c1 rd
    it c2 rd
  | .ite c a b, st, rd =>
    let rd := refsE st c rd
    let (sa, rd) := flow a st rd
    let (sb, rd) := flow b st rd
    (stJoin sa sb, rd)
  | .ret e, st, rd => (st, refsE st e rd)

/-- may the name node `nid` be reached while its variable is unassigned (`cf_maybe_null`) -/
def maybeNull (rd : Rd) (nid : Nat) : Bool :=
  (rd.filter (·.1 = nid)).any (fun e => e.2.contains none)

/-- all name nodes `(variable, id)` of locals that are read -/
def namesE : Expr → List (Nat × Nat)
  | .name v id => if v < npar then [] else [(v, id)]
  | .bin _ _ a b => namesE a ++ namesE b
  | .un _ a => namesE a
  | .cmp _ a b => namesE a ++ namesE b
  | .call a => namesE a
  | .len a => namesE a
  | .abs a => namesE a
  | .idx a b => namesE a ++ namesE b
  | .next a => namesE a
  | _ => []
def namesO : Option Expr → List (Nat × Nat)
  | some e => namesE e
  | none => []
def namesS : Stmt → List (Nat × Nat)
  | .skip => []
  | .seq a b => namesS a ++ namesS b
  | .assign _ _ e => namesE e
  | .aug v _ id _ e => (v, id) :: namesE e
  | .forr _ _ a1 a2 a3 body => namesE a1 ++ namesO a2 ++ namesO a3 ++ namesS body
  | .forin _ _ e body => namesE e ++ namesS body
  | .while c body => namesE c ++ namesS body
  | .ite c a b => namesE c ++ namesS a ++ namesS b
  | .ret e => namesE e

/-- variables with a reference that may see them unassigned -/
def maybeUnbound (p : Stmt) (rd : Rd) (v : Nat) : Bool :=
  (namesS p).any fun (w, nid) => w = v && maybeNull rd nid

/-- reaching definitions of the name node `id` (sorted, without the "uninitialised" marker) -/
def rdOf (rd : Rd) (nid : Nat) : List Nat :=
  let all := (rd.filter (·.1 = nid)).flatMap (·.2)
  sortNat (dedupNat (all.filterMap (fun x => x)))

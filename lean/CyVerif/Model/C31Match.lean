import CyVerif.Model.C31Cy
/-! C31 — Cython model, the two recursive phases and the statement level. -/
namespace CyVerif.C31

def maskHead (m : List Bool) : Bool := m.headD true

mutual
/-- phase 1: `get_comparison_node` evaluated on a subject -/
def cyTest (V : Variant) (T : Tab) : Pat → Val → Log → R Ch
  | .lit l, v, lg =>
    let r := valueTest l l.isSingleton v lg
    if r.1 then .ok .leaf r.2 else .fail r.2
  | .const k, v, lg =>
    let r := valueTest (T.const k) false v lg
    if r.1 then .ok .leaf r.2 else .fail r.2
  | .cap _, _, lg => .ok .leaf lg
  | .wild, _, lg => .ok .leaf lg
  | .as p _, v, lg => cyTest V T p v lg
  | .or alts, v, lg => cyTestAlts V T alts 1 v lg
  | .seq ps st qs, v, lg =>
    (match seqItems v with
     | none => .fail lg
     | some items =>
       let n := items.length
       let needLen := !(ps.isEmpty && qs.isEmpty && st.isSome)
       if needLen && !seqLenOk st.isSome n ps.length qs.length then .fail lg
       else
         match cySeqBefore items ps.length, cySeqAfter items qs.length with
         | some bs, some as_ =>
           (match cyTestList V T false ps [] bs lg with
            | .ok c1 l1 =>
              (match cyTestList V T false qs [] as_ l1 with
               | .ok c2 l2 => .ok (.kids [.kids c1, .kids c2]) l2
               | .fail l => .fail l
               | .err e l => .err e l)
            | .fail l => .fail l
            | .err e l => .err e l)
         | _, _ => .err .crash lg)
  | .map ks ps _, v, lg =>
    let fixed := (ks.filter Key.isLit).map (Key.val T)
    let vars := (ks.filter (fun k => !k.isLit)).map (Key.val T)
    if cyDupKeys vars fixed then .err .valueError lg
    else
      (match mapItems v with
       | none => .fail lg
       | some kvs =>
         if !ks.isEmpty && kvs.length < ks.length then .fail lg
         else
           match cyExtract (logsGet v) (mapView v) (fixed ++ vars) lg with
           | .fail l => .fail l
           | .err e l => .err e l
           | .ok _ l0 =>
             match (ks.map (fun k => lookupKey (mapView v) (k.val T))).mapM id with
             | none => .err .crash l0
             | some vals =>
               (match cyTestList V T false ps (ks.map Key.isLit) vals l0 with
                | .ok c1 l1 =>
                  (match cyTestList V T false ps (ks.map (fun k => !k.isLit)) vals l1 with
                   | .ok c2 l2 => .ok (.kids [.kids c1, .kids c2]) l2
                   | .fail l => .fail l
                   | .err e l => .err e l)
                | .fail l => .fail l
                | .err e l => .err e l))
  | .cls c pos kwn kwp, v, lg =>
    (match cyClsSubs V T c pos.length kwn v lg with
     | .fail l => .fail l
     | .err e l => .err e l
     | .ok (pv, kv) l0 =>
       if V.posFirst then
         (match cyTestList V T true pos [] pv l0 with
          | .ok c1 l1 =>
            (match cyTestList V T true kwp [] kv l1 with
             | .ok c2 l2 => .ok (.kids [.kids c1, .kids c2]) l2
             | .fail l => .fail l
             | .err e l => .err e l)
          | .fail l => .fail l
          | .err e l => .err e l)
       else
         (match cyTestList V T true kwp [] kv l0 with
          | .ok c2 l1 =>
            (match cyTestList V T true pos [] pv l1 with
             | .ok c1 l2 => .ok (.kids [.kids c1, .kids c2]) l2
             | .fail l => .fail l
             | .err e l => .err e l)
          | .fail l => .fail l
          | .err e l => .err e l))
/-- sub-pattern tests joined by `and`; entries masked off or skipped yield `leaf` -/
def cyTestList (V : Variant) (T : Tab) (clsCtx : Bool) :
    List Pat → List Bool → List Val → Log → R (List Ch)
  | [], _, _, lg => .ok [] lg
  | _ :: _, _, [], lg => .err .crash lg
  | p :: ps, m, v :: vs, lg =>
    if maskHead m && !skipTest V clsCtx p then
      (match cyTest V T p v lg with
       | .ok c l =>
         (match cyTestList V T clsCtx ps m.tail vs l with
          | .ok cs l2 => .ok (c :: cs) l2
          | r => r)
       | .fail l => .fail l
       | .err e l => .err e l)
    else
      (match cyTestList V T clsCtx ps m.tail vs lg with
       | .ok cs l2 => .ok (.leaf :: cs) l2
       | r => r)
/-- or-pattern: `which_alternative_temp = (1 if a1 else 0) or (2 if a2 else 0) or …` -/
def cyTestAlts (V : Variant) (T : Tab) : List Pat → Nat → Val → Log → R Ch
  | [], _, _, lg => .fail lg
  | a :: rest, k, v, lg =>
    (match cyTest V T a v lg with
     | .ok c l => .ok (.alt k c) l
     | .fail l => cyTestAlts V T rest (k + 1) v l
     | .err e l => .err e l)
end

def chKids2 : Ch → List Ch × List Ch
  | .kids [.kids a, .kids b] => (a, b)
  | _ => ([], [])

mutual
/-- phase 2: `create_target_assignments` executed after a successful phase 1 -/
def cyAssign (V : Variant) (T : Tab) : Pat → Val → Ch → Env
  | .lit _, _, _ => []
  | .const _, _, _ => []
  | .cap n, v, _ => [(n, v)]
  | .wild, _, _ => []
  | .as p n, v, ch => (n, asValue V T p v) :: cyAssign V T p v ch
  | .or alts, v, ch =>
    (match ch with
     | .alt k c => cyAssignNth V T alts k v c
     | _ => [])
  | .seq ps st qs, v, ch =>
    (match seqItems v with
     | none => []
     | some items =>
       match cySeqBefore items ps.length, cySeqAfter items qs.length with
       | some bs, some as_ =>
         cyAssignList V T ps [] bs (chKids2 ch).1
           ++ starBind st (cySeqStar items ps.length qs.length)
           ++ cyAssignList V T qs [] as_ (chKids2 ch).2
       | _, _ => [])
  | .map ks ps rest, v, ch =>
    (match mapItems v with
     | none => []
     | some kvs =>
       match (ks.map (fun k => lookupKey (mapView v) (k.val T))).mapM id with
       | none => []
       | some vals =>
         cyAssignList V T ps (ks.map Key.isLit) vals (chKids2 ch).1
           ++ cyAssignList V T ps (ks.map (fun k => !k.isLit)) vals (chKids2 ch).2
           ++ (match rest with
               | some r => [(r, .dict (cyRest kvs (ks.map (Key.val T))))]
               | none => []))
  | .cls c pos kwn kwp, v, ch =>
    (match cyClsSubs V T c pos.length kwn v [] with
     | .ok (pv, kv) _ =>
       cyAssignList V T kwp [] kv (chKids2 ch).2 ++ cyAssignList V T pos [] pv (chKids2 ch).1
     | _ => [])
def cyAssignList (V : Variant) (T : Tab) : List Pat → List Bool → List Val → List Ch → Env
  | p :: ps, m, v :: vs, c :: cs =>
    (if maskHead m then cyAssign V T p v c else []) ++ cyAssignList V T ps m.tail vs cs
  | _, _, _, _ => []
/-- `if which == 1: … elif which == 2: …` -/
def cyAssignNth (V : Variant) (T : Tab) : List Pat → Nat → Val → Ch → Env
  | [], _, _, _ => []
  | a :: rest, k, v, c =>
    if k = 1 then cyAssign V T a v c else cyAssignNth V T rest (k - 1) v c
end

/-- a whole match statement as generated by `MatchNode` / `MatchCaseNode` -/
def cyStmt (V : Variant) (T : Tab) : List Case → Nat → Val → Env → Log → Outcome
  | [], _, _, acc, lg => .done none acc lg
  | c :: cs, i, v, acc, lg =>
    match cyTest V T c.pat v lg with
    | .fail l => cyStmt V T cs (i + 1) v acc l
    | .err e l => .exc e l
    | .ok ch l =>
      let env := if c.guard.isNone && isValueChain c.pat then cyAssignEarly V T c.pat v
                 else cyAssign V T c.pat v ch
      match c.guard with
      | none => .done (some i) (acc ++ env) l
      | some g =>
        if g then .done (some i) (acc ++ env) (l ++ [.guard i])
        else cyStmt V T cs (i + 1) v (acc ++ env) (l ++ [.guard i])

end CyVerif.C31

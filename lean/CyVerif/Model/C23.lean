import CyVerif.Model.Util
/-!
# C23 — generator objects: Cython's wrapper (Cython/Utility/Coroutine.c) and CPython 3.12's (Objects/genobject.c,
the `SEND` / `CLEANUP_THROW` / `YIELD_VALUE` instructions of Python/bytecodes.c) over the same abstract body

A generator *body* is a parameter: a deterministic resumable machine `resume : σ → Input → List String × Step`
(the strings are side effects such as log entries written by `finally` blocks).  It is resumed with a sent value,
a thrown exception, or the outcome of a call it made on its own (running) generator object, and answers with
`yield v`, `return v`, `raise e`, `yield from d` (delegation to a fresh generator of the same program or to an
opaque iterator object with optional `send`/`throw`/`close`) or `reenter op` (it calls `op` on itself).

Objects form a chain `gen → yieldfrom → yieldfrom …` ending in `null` or an opaque iterator.  Both wrappers are
written in open-recursive form: `cyF rec` / `pyF rec` is one level of the C call graph, every call on a
sub-object, every decref of a sub-object and every continuation of the body after an internal event goes through
`rec`; `cyRun (n+1) = cyF (cyRun n)` and `cyRun 0` = `diverged` (no Python frame / C stack left).
-/
namespace CyVerif.C23

abbrev Val := Nat        -- 0 = None

inductive Msg where
  | user | raisedStop | ignoredExit | justStarted | alreadyExecuting | reuse
  deriving DecidableEq, Repr

inductive Exc where
  | stopIteration (v : Val)
  | generatorExit
  | runtimeError (m : Msg)
  | typeError (m : Msg)
  | valueError (m : Msg)
  | attributeError
  | other (c : Nat)
  deriving DecidableEq, Repr

def Exc.isStop : Exc → Option Val
  | .stopIteration v => some v
  | _ => none

/-- PEP 479: a StopIteration leaving the body becomes RuntimeError("generator raised StopIteration"). -/
def pep479 : Exc → Exc
  | .stopIteration _ => .runtimeError .raisedStop
  | e => e

inductive Op where
  | next | send (v : Val) | throw (e : Exc) | close | probe
  deriving DecidableEq, Repr

inductive Out where
  | yielded (v : Val) | raised (e : Exc) | closed | probed (running frameNone yfNone : Bool) | deleted | diverged
  deriving DecidableEq, Repr

inductive Input where
  | send (v : Val) | throw (e : Exc) | reent (o : Out)
  deriving DecidableEq, Repr

inductive Desc (σ ι : Type) where
  | gen (s0 : σ) | opq (o : ι)

inductive Step (σ ι : Type) where
  | yield (v : Val) (s : σ)
  | ret (v : Val)
  | raise (e : Exc)
  | delegate (d : Desc σ ι) (s : σ)
  | reenter (op : Op) (s : σ)

structure Body (σ ι : Type) where
  resume : σ → Input → List String × Step σ ι

inductive IRes where
  | val (v : Val) | exc (e : Exc)
  deriving DecidableEq, Repr

/-- An opaque iterator object: `__next__` always exists, `send`/`throw`/`close` are attributes that may be missing. -/
structure OpqSem (ι : Type) where
  next : ι → List String × IRes × ι
  send : ι → Option (Val → List String × IRes × ι)
  throw : ι → Option (Exc → List String × IRes × ι)
  close : ι → Option (List String × Option Exc × ι)

inductive Ev where
  | tag (t : String) | unraisable (e : Exc)
  deriving DecidableEq, Repr

/-- `PYGEN_NEXT v` / `PYGEN_RETURN v` / `PYGEN_ERROR` with exception `e`; `div` = recursion budget exhausted. -/
inductive Res where
  | next (v : Val) | ret (v : Val) | err (e : Exc) | div
  deriving DecidableEq, Repr

/-- the situations in which the two wrappers are known to differ (recorded by the CPython model) -/
inductive Dev where
  | sendNonNoneUnstarted | closeReturnsValue | throwStopUnstarted | stopIntoDelegation
  deriving DecidableEq, Repr

structure R (O : Type) where
  out : Res
  obj : O
  log : List Ev
  devs : List Dev := []

inductive Req where
  | send (v : Val)                 -- am_send / gen_send_ex2
  | next                           -- tp_iternext
  | throw (e : Exc)                -- the throw method
  | close                          -- __Pyx_Coroutine_Close / gen_close
  | del                            -- last reference dropped: tp_finalize + dealloc
  | cont (inp : Input)             -- continue the body of this running generator
  deriving DecidableEq, Repr

def tags (l : List String) : List Ev := l.map Ev.tag

/-- `__Pyx_Coroutine_MethodReturn` / `gen_send_ex`: a returned value travels as StopIteration(value). -/
def methodReturn : Res → Res
  | .ret v => .err (.stopIteration v)
  | r => r

/-- `__Pyx_Coroutine_status_from_result` / `_PyGen_FetchStopIterationValue`. -/
def statusFromResult : Res → Res
  | .err (.stopIteration v) => .ret v
  | r => r

def outOfRes : Res → Out
  | .next v => .yielded v
  | .ret v => .raised (.stopIteration v)
  | .err e => .raised e
  | .div => .diverged

/-- what `gen_close_iter` / `__Pyx_Coroutine_CloseIter` keep of the result of `close()`: error or not -/
def closeStatus : Res → Res
  | .err e => .err e
  | .div => .div
  | _ => .ret 0

def excOfStatus (dflt : Exc) : Res → Exc
  | .err e => e
  | _ => dflt

def reqOfOp : Op → Req
  | .next => .next
  | .send v => .send v
  | .throw e => .throw e
  | .close => .close
  | .probe => .next

/-- outcome of the method call `op` whose C-level status is `r` -/
def outOfOp : Op → Res → Out
  | .send _, r => outOfRes (methodReturn r)
  | .close, r => (match r with | .err e => .raised e | .div => .diverged | _ => .closed)
  | _, r => outOfRes r

def iresToRes : IRes → Res
  | .val v => .next v
  | .exc e => .err e

namespace R
variable {O : Type}
def pre (l : List Ev) (d : List Dev) (r : R O) : R O := { r with log := l ++ r.log, devs := d ++ r.devs }
def mapOut (f : Res → Res) (r : R O) : R O := { r with out := f r.out }
/-- sequencing after a call that goes through the recursion: a diverged call ends everything (`nul` = no object),
otherwise the continuation sees the status and the object, and what it logs comes after -/
def bind (nul : O) (r : R O) (k : Res → O → R O) : R O :=
  match r.out with
  | .div => ⟨.div, nul, r.log, r.devs⟩
  | o => (k o r.obj).pre r.log r.devs
end R

/-- opaque iterator calls (the same Python object in both worlds) -/
def opqSend {ι} (O : OpqSem ι) (o : ι) (v : Val) : List String × IRes × ι :=
  if v = 0 then O.next o
  else match O.send o with
    | none => ([], .exc .attributeError, o)
    | some f => f v

/-- exception left by a delegate: `__Pyx_PyGen__FetchStopIterationValue` / `_PyGen_FetchStopIterationValue`
(and `CLEANUP_THROW`) decide between the value of the `yield from` expression and an error -/
def inputOfExc (e : Exc) : Input :=
  match e.isStop with
  | some v => .send v
  | none => .throw e

/-- one step of an operation history: a method call, or dropping the last reference -/
inductive HOp where
  | op (o : Op) | del
  deriving DecidableEq, Repr

end CyVerif.C23

import CyVerif.Model.C05
/-!
Model of `Cython/Utility/Optimize.c`, section `PyLongBinop`
(`__Pyx_PyLong_{Add,Subtract,Multiply,Remainder,FloorDivide,TrueDivide,And,Or,Xor,Lshift,Rshift}{ObjC,CObj}`:
`__Pyx_Unpacked_…`, `__Pyx_Float_…`, `__Pyx_Fallback_…` and the dispatching inline function).

* Python ints, the platform `(PyLong_SHIFT, sizeof int/long/long long)`, C integer types, `(T) x`, and
  `pylong_join` are those of the C05 model (`CyVerif.C05`); nothing is fixed to 64 bit.
* Every C expression on `long` / `PY_LONG_LONG` returns `Except String Int`; an error is undefined
  behaviour (signed overflow, division by zero / `MIN / -1`, shift count out of range, and — unless
  `cfg.gccShift` — `<<` of a negative value or with an unrepresentable result, `>>` of a negative value).
* `fallback` is an explicit outcome: the helper hands both operands to CPython's own implementation
  (`PyLong_Type.tp_as_number->nb_…`, `PyNumber_…`, `PyNumber_InPlace…`).
-/
namespace CyVerif.C02
open CyVerif.C05 (Plat CTy cast two E PyLong natVal pylongJoin)

inductive Op where
  | add | sub | mul | rem | fdiv | tdiv | and | or | xor | lsh | rsh
  deriving DecidableEq, Repr

inductive Order where
  | objC   -- `x op c`: the Python object is `op1`, C name `a`
  | cObj   -- `c op x`: the Python object is `op2`, C name `b`
  deriving DecidableEq, Repr

/-- Build configuration / C dialect. -/
structure Cfg where
  internals : Bool       -- CYTHON_USE_PYLONG_INTERNALS
  negShiftWorks : Bool   -- the template's `negative_shift_works` (compiler/architecture macro test)
  gccShift : Bool        -- signed `<<` wraps and `>>` of a negative value is arithmetic (gcc, clang, msvc);
                         -- `false` = ISO C99 6.5.7: both are not defined by the standard
  deriving DecidableEq, Repr

/-! ## C arithmetic on signed types -/

def cadd (t : CTy) (a b : Int) : E Int :=
  if t.inRange (a + b) then .ok (a + b) else .error "signed-addition-overflow"

def cdiv (t : CTy) (a b : Int) : E Int :=
  if b = 0 then .error "division-by-zero"
  else if t.inRange (a.tdiv b) then .ok (a.tdiv b) else .error "division-overflow"

/-- `a % b` (undefined when `a / b` is not representable, C99 6.5.5p6). -/
def cmod (t : CTy) (a b : Int) : E Int :=
  if b = 0 then .error "division-by-zero"
  else if t.inRange (a.tdiv b) then .ok (a.tmod b) else .error "division-overflow"

/-- `labs(a)` / `llabs(a)`. -/
def clabs (t : CTy) (a : Int) : E Int :=
  if t.inRange (-a) then .ok (if a < 0 then -a else a) else .error "labs-of-minimum"

inductive BitOp where
  | and | or | xor
  deriving DecidableEq, Repr

def BitOp.nat : BitOp → Nat → Nat → Nat
  | .and, m, n => m &&& n
  | .or, m, n => m ||| n
  | .xor, m, n => m ^^^ n

def BitOp.bool : BitOp → Bool → Bool → Bool
  | .and, x, y => x && y
  | .or, x, y => x || y
  | .xor, x, y => x ^^ y

/-- the two's complement bit pattern of `a` in `w` bits -/
def toU (w : Nat) (a : Int) : Nat := (a % two w).toNat

/-- `a & b`, `a | b`, `a ^ b` on a two's complement type. -/
def cbit (t : CTy) (o : BitOp) (a b : Int) : Int :=
  cast t ((o.nat (toU t.bits a) (toU t.bits b) : Nat) : Int)

/-- `a << s` in the signed type `t`; `s` is a C value. -/
def cshl (cfg : Cfg) (t : CTy) (a s : Int) : E Int :=
  if s < 0 ∨ (t.bits : Int) ≤ s then .error "shift-count-out-of-range"
  else if cfg.gccShift then .ok (cast t (a * two s.toNat))
  else if a < 0 then .error "left-shift-of-negative-value"
  else if t.inRange (a * two s.toNat) then .ok (a * two s.toNat) else .error "signed-shift-overflow"

/-- `a >> s` in the signed type `t`. -/
def cshr (cfg : Cfg) (t : CTy) (a s : Int) : E Int :=
  if s < 0 ∨ (t.bits : Int) ≤ s then .error "shift-count-out-of-range"
  else if a < 0 ∧ cfg.gccShift = false then .error "right-shift-of-negative-value"
  else .ok (a >>> s.toNat)

/-! ## Outcomes -/

inductive Out where
  | int (v : Int)            -- `PyLong_FromLong(v)` / `PyLong_FromLongLong(v)` / a new reference to an int of value `v`
  | quot (a b : Int)         -- `PyFloat_FromDouble((double)a / (double)b)` with `a`, `b` C integers
  | flt (op : Op) (ord : Order)   -- `PyFloat_FromDouble(A op B)`; the object's double and `(double)intval` in the given order
  | bool (b : Bool)          -- `Py_True` / `Py_False` / C `1` / `0` (comparison helpers)
  | err (e : String)
  | ub (kind : String)
  | fallback (how : String)  -- "slot": `PyLong_Type.tp_as_number->nb_…(op1, op2)`; "generic": `PyNumber_[InPlace]…(op1, op2)`
  deriving DecidableEq, Repr

def ofE : E Out → Out
  | .ok o => o
  | .error k => .ub k

/-- The operand named `a` / `b` in the template. -/
def opA (ord : Order) (x c : Int) : Int := match ord with | .objC => x | .cObj => c
def opB (ord : Order) (x c : Int) : Int := match ord with | .objC => c | .cObj => x

def Op.isDiv : Op → Bool
  | .rem | .fdiv | .tdiv => true
  | _ => false

/-! ## `__Pyx_Unpacked_…` -/

/-- "special cases for 0": `some out` if the block returns, `none` if control falls through. -/
def zeroCase (P : Plat) (op : Op) (ord : Order) (c : Int) (zcheck : Bool) : Option Out :=
  match ord, op with
  | .cObj, .rem | .cObj, .fdiv | .cObj, .tdiv =>
    if zcheck then some (.err "ZeroDivisionError") else none          -- zerodiv_check('0')
  | .cObj, .add | .cObj, .sub | .cObj, .or | .cObj, .xor | .cObj, .rsh | .cObj, .lsh => some (.int c)   -- op1
  | .cObj, .mul | .cObj, .and => some (.int 0)                         -- op2
  | .objC, .add | .objC, .or | .objC, .xor => some (.int c)            -- op2
  | .objC, .sub => some (ofE (do let n ← C05.neg P.tLong c; pure (.int n)))   -- PyLong_FromLong(-intval)
  | .objC, .mul | .objC, .rem | .objC, .and | .objC, .rsh | .objC, .lsh | .objC, .fdiv => some (.int 0)  -- op1
  | .objC, .tdiv => none

/-- `PyLong_MASK` -/
def mask (P : Plat) : Int := two P.shift - 1

/-- "special case for &-ing arbitrarily large numbers with known single digit operands".
(`intval & PyLong_MASK` is evaluated in `long` here; where `digit` is as wide as `long` C evaluates it in
`unsigned long` — the comparison has the same outcome.) -/
def andShortcut (P : Plat) (p : PyLong) (isPos : Bool) (c : Int) : Option Out :=
  if cbit P.tLong .and c (mask P) = c then
    some (ofE (do
      let lastDigit : Int := (p.digit0 : Int)
      let other ← if isPos then pure lastDigit else do
        let m ← C05.sub P.tLong (mask P) lastDigit
        cadd P.tLong m 1
      pure (.int (cbit P.tLong .and c other))))
  else none

inductive Unp where
  | long (v : Int)   -- `goto calculate_long` with the object's value in `long`
  | ll (v : Int)     -- `goto calculate_long_long`
  | slot             -- "size doesn't fit into a long or PY_LONG_LONG any more"
  deriving DecidableEq, Repr

/-- `{{if c_op == '*'}}+30{{endif}}` -/
def extra (op : Op) : Nat := if op = .mul then 30 else 0

/-- `if (!is_positive) ival *= -1;` -/
def signFix (t : CTy) (isPos : Bool) (v : Int) : E Int :=
  if isPos then .ok v else C05.mul t v (-1)

/-- `{{for _size in range(2, 5)}} if (size == _size && …) {…} else if (…) {…} else {{endfor}} {}` -/
def joinChain (P : Plat) (op : Op) (isPos : Bool) (ds : List Nat) : List Nat → E Unp
  | [] => .ok .slot
  | k :: ks =>
    if ds.length = k ∧ 8 * P.longBytes - 1 > k * P.shift + extra op ∧ (op ≠ .tdiv ∨ (k - 1) * P.shift < 53) then do
      let j ← pylongJoin P P.tULong ds
      let v ← signFix P.tLong isPos (cast P.tLong j)
      pure (.long v)
    else if op ≠ .tdiv ∧ ds.length = k ∧ 8 * P.llBytes - 1 > k * P.shift + extra op then do
      let j ← pylongJoin P P.tULL ds
      let v ← signFix P.tLL isPos (cast P.tLL j)
      pure (.ll v)
    else joinChain P op isPos ds ks

def unpack (P : Plat) (op : Op) (p : PyLong) (isPos : Bool) : E Unp :=
  if p.digits.length = 1 then do
    let v ← signFix P.tLong isPos (cast P.tLong (p.digit0 : Int))
    pure (.long v)
  else joinChain P op isPos p.digits [2, 3, 4]

/-- `((x != 0) & ((x ^ b) < 0))` -/
def adjBit (t : CTy) (x b : Int) : Int :=
  if x ≠ 0 ∧ cbit t .xor x b < 0 then 1 else 0

/-- `x = a % b; x += ((x != 0) & ((x ^ b) < 0)) * b;` -/
def cRemainder (t : CTy) (a b : Int) : E Out := do
  let x ← cmod t a b
  let m ← C05.mul t (adjBit t x b) b
  let x' ← cadd t x m
  pure (.int x')

/-- `q = a / b; r = a - q*b; q -= ((r != 0) & ((r ^ b) < 0));` -/
def cFloorDivide (t : CTy) (a b : Int) : E Out := do
  let q ← cdiv t a b
  let qb ← C05.mul t q b
  let r ← C05.sub t a qb
  let q' ← C05.sub t q (adjBit t r b)
  pure (.int q')

/-- `calculate_long_long:` -/
def calcLL (P : Plat) (cfg : Cfg) (op : Op) (lla llb : Int) : E Out :=
  let t := P.tLL
  match op with
  | .rem => cRemainder t lla llb
  | .fdiv => cFloorDivide t lla llb
  | .tdiv => .error "no-such-label"
  | .add => do let x ← cadd t lla llb; pure (.int x)
  | .sub => do let x ← C05.sub t lla llb; pure (.int x)
  | .mul => do let x ← C05.mul t lla llb; pure (.int x)
  | .and => pure (.int (cbit t .and lla llb))
  | .or => pure (.int (cbit t .or lla llb))
  | .xor => pure (.int (cbit t .xor lla llb))
  | .rsh =>
    -- `{{if op == 'LShift' or op == 'Rshift'}}`: the misspelt 'LShift' never matches, only `>>` has the test
    if cfg.negShiftWorks = false ∧ lla < 0 then pure (.fallback "generic")
    else if (t.bits : Int) ≤ llb then pure (.int (if lla < 0 then -1 else 0))
    else do let x ← cshr cfg t lla llb; pure (.int x)
  | .lsh => do
    let x ← cshl cfg t lla llb
    let y ← cshr cfg t x llb
    if lla ≠ y then pure (.fallback "generic") else pure (.int x)

/-- `calculate_long:`; `xv` is the value of the Python operand (`a` or `b`), `size` its digit count. -/
def calcLong (P : Plat) (cfg : Cfg) (op : Op) (a b xv : Int) (size : Nat) : E Out :=
  let t := P.tLong
  match op with
  | .mul => calcLL P cfg op a b
  | .rem => cRemainder t a b
  | .fdiv => cFloorDivide t a b
  | .tdiv => do
    let small ←
      if 8 * P.longBytes ≤ 53 then pure true else do
        let l ← clabs t xv
        let lim ← C05.shl P.tLL 1 53
        pure (decide (l ≤ lim))
    if small ∨ size ≤ 52 / P.shift then pure (.quot a b) else pure (.fallback "slot")
  | .add => do let x ← cadd t a b; pure (.int x)
  | .sub => do let x ← C05.sub t a b; pure (.int x)
  | .and => pure (.int (cbit t .and a b))
  | .or => pure (.int (cbit t .or a b))
  | .xor => pure (.int (cbit t .xor a b))
  | .rsh =>
    if cfg.negShiftWorks = false ∧ a < 0 then pure (.fallback "generic")
    else if (t.bits : Int) ≤ b then pure (.int (if a < 0 then -1 else 0))
    else do let x ← cshr cfg t a b; pure (.int x)
  | .lsh =>
    if cfg.negShiftWorks = false ∧ a < 0 then pure (.fallback "generic")
    else do
      let x ← cshl cfg t a b
      -- `if (unlikely(!(b < (long)(sizeof(long)*8) && a == x >> b)) && a)`
      let same ← if b < (t.bits : Int) then do let y ← cshr cfg t x b; pure (decide (a = y)) else pure false
      if same = false ∧ a ≠ 0 then calcLL P cfg op a b else pure (.int x)

def isZero (p : PyLong) : Bool := p.digits.isEmpty
def isPos (p : PyLong) : Bool := !p.neg && !p.digits.isEmpty

def unpacked (P : Plat) (cfg : Cfg) (op : Op) (ord : Order) (p : PyLong) (c : Int) (zcheck : Bool) : Out :=
  let cont : Out :=
    match (if op = .and then andShortcut P p (isPos p) c else none) with
    | some o => o
    | none => ofE (do
      match ← unpack P op p (isPos p) with
      | .long v => calcLong P cfg op (opA ord v c) (opB ord v c) v p.digits.length
      | .ll v => calcLL P cfg op (opA ord v c) (opB ord v c)
      | .slot => pure (.fallback "slot"))
  if isZero p then
    match zeroCase P op ord c zcheck with
    | some o => o
    | none => cont
  else cont

/-! ## Python operands and the dispatching function -/

/-- Abstraction of a C `double`: what the decisions of the helpers depend on. -/
inductive FCls where
  | nan
  | inf (neg : Bool)
  | int (v : Int)    -- finite with an integral value `v` (both zeros are `int 0`)
  | frac             -- finite, not integral
  deriving DecidableEq, Repr

def FCls.isZero : FCls → Bool
  | .int v => v = 0
  | _ => false

inductive Obj where
  | long (p : PyLong)     -- `PyLong_CheckExact`
  | float (f : FCls)      -- `PyFloat_CheckExact`
  | other                 -- bool, int/float subclasses, any other object
  deriving DecidableEq, Repr

/-- `__Pyx_Float_…(float_val, intval, zerodivision_check)` (only instantiated for `+ - *` and true division). -/
def floatPath (op : Op) (ord : Order) (f : FCls) (zcheck : Bool) : Out :=
  -- zerodiv_check('b', 'float'): emitted for order == 'CObj' and c_op in '%/'
  if ord = .cObj ∧ op.isDiv = true ∧ zcheck = true ∧ f.isZero = true then .err "ZeroDivisionError"
  else .flt op ord

/-- `__Pyx_PyLong_{{op}}{{order}}(op1, op2, intval, inplace, zerodivision_check)`.
`inplace` only selects `PyNumber_InPlace…` inside the generic fallback and is not an input of the model. -/
def binop (P : Plat) (cfg : Cfg) (op : Op) (ord : Order) (x : Obj) (c : Int) (zcheck : Bool) : Out :=
  match x with
  | .long p => if cfg.internals then unpacked P cfg op ord p c zcheck else .fallback "generic"
  | .float f =>
    if op = .add ∨ op = .sub ∨ op = .mul ∨ op = .tdiv then floatPath op ord f zcheck else .fallback "generic"
  | .other => .fallback "generic"

end CyVerif.C02

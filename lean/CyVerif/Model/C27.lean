import CyVerif.Model.Util
/-!
Model of the cpdef override check (`OverrideCheckNode.generate_execution_code`,
Cython/Compiler/Nodes.py; helpers `__Pyx_get_tp_dict_version`, `__Pyx_get_object_dict_version`,
`__Pyx_object_dict_version_matches` in Cython/Utility/ObjectHandling.c).

For a C-level call of a cpdef method `A.meth` on `self` the generated C does

    if (skip_dispatch) ;                                   // entered through the Python wrapper
    else if (tp_dictoffset != 0 || HEAPTYPE|ABSTRACT) {    // self is an instance of a Python subclass
      static tp_ver = INIT, obj_ver = INIT;                // per method, shared by all instances
      if (!(tp_ver == ver(Py_TYPE(self)->tp_dict) && obj_ver == ver(dict of self or 0))) {
        guard = ver(type dict);  f = getattr(self, "meth");
        if (f is not A's own wrapper) return f(...);       // overridden: statics untouched
        tp_ver = ver(type dict); obj_ver = ver(instance dict or 0);
        if (guard != tp_ver) tp_ver = obj_ver = INIT;       // type dict changed *during* the lookup
      } }
    ... C body ...

Only the dict of the *exact* type of `self` and the instance dict are versioned.
Python classes form an arbitrary hierarchy: class `c` has the method-resolution order `mro c`
(list of Python classes, most derived first; the extension type `A` sits implicitly at the end and
is immutable).  Instance `o` has class `icls o`.  Values stand for function objects (identity).
Dict version tags follow CPython: one global counter, fresh tag on every real mutation.
`INIT` is modelled as `none` (real tags never equal 2^64-1).
-/
namespace CyVerif.C27

abbrev Val := Nat

structure Statics where
  tp : Option Nat := none
  obj : Option Nat := none
  deriving Repr, DecidableEq

structure State where
  cattr : Nat → Option Val       -- override stored in the dict of Python class k
  cver : Nat → Nat               -- version tag of that dict
  iattr : Nat → Option Val       -- override stored in the instance dict of o
  iver : Nat → Nat               -- version tag of the instance dict, 0 = no dict
  counter : Nat
  st : Statics                   -- the method's static cache

inductive Op where
  | setC (k : Nat) (v : Option Val)     -- C_k.meth = f  /  del C_k.meth
  | setI (o : Nat) (v : Option Val)     -- o.meth = f    /  del o.meth
  | tick
  | callC (o : Nat)                     -- C-level call (skip_dispatch = 0)
  | callPy (o : Nat)                    -- o.meth() from Python
  deriving Repr

inductive Out where
  | done | missing | cbody | override (v : Val)
  deriving DecidableEq, Repr

def upd {α} (f : Nat → α) (n : Nat) (v : α) : Nat → α := fun k => if k = n then v else f k

/-- `getattr(o, "meth")`: instance dict first (the cpdef wrapper is a non-data descriptor), then
the first class in the MRO that defines it; `none` = A's own method. -/
def lookup (mro : Nat → List Nat) (icls : Nat → Nat) (cattr iattr : Nat → Option Val) (o : Nat) : Option Val :=
  match iattr o with
  | some v => some v
  | none => (mro (icls o)).findSome? cattr

def outOf : Option Val → Out
  | some v => .override v
  | none => .cbody

def step (useVer : Bool) (mro : Nat → List Nat) (icls : Nat → Nat) (s : State) : Op → State × Out
  | .setC k v =>
    if s.cattr k = v then (s, if v.isSome then .done else .missing)
    else ({ s with cattr := upd s.cattr k v, cver := upd s.cver k (s.counter + 1), counter := s.counter + 1 }, .done)
  | .setI o v =>
    if s.iattr o = v then (s, if v.isSome then .done else .missing)
    else ({ s with iattr := upd s.iattr o v, iver := upd s.iver o (s.counter + 1), counter := s.counter + 1 }, .done)
  | .tick => ({ s with counter := s.counter + 1 }, .done)
  | .callPy o => (s, outOf (lookup mro icls s.cattr s.iattr o))
  | .callC o =>
    if useVer then
      let tv := s.cver (icls o)
      let ov := s.iver o
      if s.st.tp = some tv ∧ s.st.obj = some ov then (s, .cbody)
      else
        match lookup mro icls s.cattr s.iattr o with
        | some v => (s, .override v)
        | none => ({ s with st := { tp := some tv, obj := some ov } }, .cbody)
    else (s, outOf (lookup mro icls s.cattr s.iattr o))

def run (useVer : Bool) (mro : Nat → List Nat) (icls : Nat → Nat) (s : State) : List Op → List Out
  | [] => []
  | op :: ops => let (s', o) := step useVer mro icls s op; o :: run useVer mro icls s' ops

/-! Specification: Python attribute lookup decides, no cache. -/
structure Spec where
  cattr : Nat → Option Val
  iattr : Nat → Option Val

def specStep (mro : Nat → List Nat) (icls : Nat → Nat) (s : Spec) : Op → Spec × Out
  | .setC k v => if s.cattr k = v then (s, if v.isSome then .done else .missing) else ({ s with cattr := upd s.cattr k v }, .done)
  | .setI o v => if s.iattr o = v then (s, if v.isSome then .done else .missing) else ({ s with iattr := upd s.iattr o v }, .done)
  | .tick => (s, .done)
  | .callPy o => (s, outOf (lookup mro icls s.cattr s.iattr o))
  | .callC o => (s, outOf (lookup mro icls s.cattr s.iattr o))

def specRun (mro : Nat → List Nat) (icls : Nat → Nat) (s : Spec) : List Op → List Out
  | [] => []
  | op :: ops => let (s', o) := specStep mro icls s op; o :: specRun mro icls s' ops

/-- Fresh process: no overrides, class dict `k` has tag `k+1`, no instance dicts, counter above all tags
of the `n` classes in use. -/
def init (n : Nat) : State :=
  { cattr := fun _ => none, cver := fun k => if k < n then k + 1 else 0, iattr := fun _ => none,
    iver := fun _ => 0, counter := n + 1, st := {} }

/-! ### line protocol
`run <useVer> <nclasses> <mro of class 0 as a.b.c> … | <icls of inst 0> … ; ops`
ops: `C:k:v` (v = 0 deletes) `I:o:v` `T` `X:o` (C-level call) `P:o` (Python call) -/
def parseOp (t : String) : Option Op :=
  match t.splitOn ":" with
  | ["C", k, v] => do let v ← v.toNat?; some (.setC (← k.toNat?) (if v = 0 then none else some v))
  | ["I", o, v] => do let v ← v.toNat?; some (.setI (← o.toNat?) (if v = 0 then none else some v))
  | ["T"] => some .tick
  | ["X", o] => do some (.callC (← o.toNat?))
  | ["P", o] => do some (.callPy (← o.toNat?))
  | _ => none

def renderOut : Out → String
  | .done => "-"
  | .missing => "X"
  | .cbody => "A"
  | .override v => toString v

def handle : List String → String
  | "run" :: uv :: rest =>
    let pre := rest.takeWhile (· ≠ ";")
    let post := (rest.dropWhile (· ≠ ";")).drop 1
    let mros := pre.takeWhile (· ≠ "|")
    let insts := (pre.dropWhile (· ≠ "|")).drop 1
    match mros.mapM (fun t => (t.splitOn ".").mapM String.toNat?), insts.mapM String.toNat?, post.mapM parseOp with
    | some ms, some is, some ops =>
      let mro : Nat → List Nat := fun c => ms.getD c [c]
      let icls : Nat → Nat := fun o => is.getD o 0
      "ok " ++ ",".intercalate ((run (uv == "1") mro icls (init ms.length) ops).map renderOut)
    | _, _, _ => "bad-op"
  | _ => "bad-op"

end CyVerif.C27

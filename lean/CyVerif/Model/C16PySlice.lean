import CyVerif.Model.Util
/-!
`PySpec` for slices: transcription of CPython 3.12 `Objects/sliceobject.c`
(`PySlice_Unpack`, `PySlice_AdjustIndices`) and of Python's index
normalisation.  This is the *reference semantics* side of C16; it is tied to
CPython on every run through `slice(a,b,c).indices(n)`, `len(range(*…))` and
`list(range(n))[a:b:c]`.

C's `/` on `Py_ssize_t` is `Int.tdiv`.
-/
namespace CyVerif.C16.PySlice

/-- The per-bound part of `PySlice_AdjustIndices`:
```
if (*start < 0) { *start += length; if (*start < 0) *start = (step < 0) ? -1 : 0; }
else if (*start >= length) *start = (step < 0) ? length - 1 : length;
```
(the code for `stop` is the same text). -/
def clampBound (length step x : Int) : Int :=
  if x < 0 then
    let y := x + length
    if y < 0 then (if step < 0 then -1 else 0) else y
  else if x ≥ length then (if step < 0 then length - 1 else length)
  else x

/-- The slice-length formula at the end of `PySlice_AdjustIndices`. -/
def sliceLen (start stop step : Int) : Int :=
  if step < 0 then
    if stop < start then (start - stop - 1).tdiv (-step) + 1 else 0
  else
    if start < stop then (stop - start - 1).tdiv step + 1 else 0

/-- Adjusted start, stop and the slice length. -/
structure Adj where
  start : Int
  stop : Int
  len : Int
  deriving DecidableEq, Repr

/-- `PySlice_AdjustIndices(length, &start, &stop, step)` (precondition `step ≠ 0`). -/
def adjustIndices (length start stop step : Int) : Adj :=
  let s := clampBound length step start
  let e := clampBound length step stop
  ⟨s, e, sliceLen s e step⟩

/-- Saturation of `_PyEval_SliceIndex` into `[-M-1, M]` (`M = PY_SSIZE_T_MAX`). -/
def sat (M x : Int) : Int := if x > M then M else if x < -M - 1 then -M - 1 else x

/-- `PySlice_Unpack`: `None` defaults and saturation; `step = 0` is `ValueError`;
a step below `-M` is raised to `-M`. -/
def unpack (M : Int) (start stop step : Option Int) : Res (Int × Int × Int) :=
  let st : Int := match step with
    | none => 1
    | some v => let v := sat M v; if v < -M then -M else v
  if step = some 0 then .err "ValueError" else
  let s := match start with
    | none => if st < 0 then M else 0
    | some v => sat M v
  let e := match stop with
    | none => if st < 0 then -M - 1 else M
    | some v => sat M v
  .ok (s, e, st)

/-- What list / memoryview slicing does: `PySlice_Unpack` then `PySlice_AdjustIndices`. -/
def unpackAdjust (M length : Int) (start stop step : Option Int) : Res (Adj × Int) :=
  match unpack M start stop step with
  | .err e => .err e
  | .ok (s, e, st) => .ok (adjustIndices length s e st, st)

/-- The same on unbounded integers: `None` bounds are the "end values" of the
language reference (§ Sequence types, note 5). -/
def indices (length : Int) (start stop step : Option Int) : Res (Adj × Int) :=
  if step = some 0 then .err "ValueError" else
  let st := step.getD 1
  let s := match start with
    | none => if st < 0 then length - 1 else 0
    | some v => clampBound length st v
  let e := match stop with
    | none => if st < 0 then -1 else length
    | some v => clampBound length st v
  .ok (⟨s, e, sliceLen s e st⟩, st)

/-- The indices a slice selects, in order: `start, start+step, …` (`len` of them). -/
def selected (a : Adj) (step : Int) : List Int :=
  (List.range a.len.toNat).map fun (k : Nat) => a.start + (k : Int) * step

/-- Python integer indexing of a sequence of length `n`: wraparound once, else IndexError. -/
def index (n i : Int) : Res Int :=
  if 0 ≤ i ∧ i < n then .ok i
  else if i < 0 ∧ 0 ≤ i + n then .ok (i + n)
  else .err "IndexError"

end CyVerif.C16.PySlice

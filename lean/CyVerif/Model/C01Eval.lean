import CyVerif.Model.C01Exec
/-! C01: the evaluator (fuel = nesting depth bound) and the two semantics `runRef` / `runCy`. -/
namespace CyVerif.C01

inductive Ctl | next | ret (v : Val)
  deriving Inhabited

def pathOf (st : St) (fid : Nat) : Path := (st.frames[fid]?.getD default).path

def callBuiltin (x : Name) (args : List Val) : Except Exc Val :=
  if x = 0 then   -- tuple
    match args with
    | [] => .ok (.lst [])
    | [.str s] => .ok (.lst (s.map (fun c => .str [c])))
    | [.lst l] => .ok (.lst l)
    | _ => .error .typeError
  else .error .typeError   -- Ellipsis is not callable

mutual
def eval (T : List Entry) : Nat → Nat → Expr → St → Except Exc Val × St
  | 0, _, _, st => (.error .fuel, st)
  | n + 1, fid, e, st =>
    match e with
    | .lit s => (.ok (.str s), st)
    | .name x => (load T st fid x, st)
    | .walrus x e =>
      match eval T n fid e st with
      | (.ok v, st) =>
        (match store T st fid x v with
         | .ok st' => (.ok v, st')
         | .error ex => (.error ex, st))
      | r => r
    | .cat a b =>
      match eval T n fid a st with
      | (.ok va, st) =>
        (match eval T n fid b st with
         | (.ok vb, st) => (catVal va vb, st)
         | r => r)
      | r => r
    | .lam id ps d body =>
      match evals T n fid d st with
      | (.ok ds, st) => (.ok (.fn (id :: pathOf st fid) ps ds (.cons (.ret body) .nil) fid), st)
      | (.error ex, st) => (.error ex, st)
    | .comp id gen x its elt =>
      match evals T n fid its st with
      | (.ok vs, st) =>
        let (st, cf) := newFrame st ⟨id :: pathOf st fid, if gen then .gen else .comp, fid, []⟩
        (match compLoop T n cf x elt vs st with
         | (.ok rs, st) => (.ok (.lst rs), st)
         | (.error ex, st) => (.error ex, st))
      | (.error ex, st) => (.error ex, st)
    | .call f args =>
      match eval T n fid f st with
      | (.ok vf, st) =>
        (match evals T n fid args st with
         | (.ok vargs, st) => callVal T n vf vargs st
         | (.error ex, st) => (.error ex, st))
      | r => r
def evals (T : List Entry) : Nat → Nat → Exprs → St → Except Exc (List Val) × St
  | 0, _, _, st => (.error .fuel, st)
  | n + 1, fid, es, st =>
    match es with
    | .nil => (.ok [], st)
    | .cons e r =>
      match eval T n fid e st with
      | (.ok v, st) =>
        (match evals T n fid r st with
         | (.ok vs, st) => (.ok (v :: vs), st)
         | x => x)
      | (.error ex, st) => (.error ex, st)
def compLoop (T : List Entry) : Nat → Nat → Name → Expr → List Val → St → Except Exc (List Val) × St
  | 0, _, _, _, _, st => (.error .fuel, st)
  | n + 1, cf, x, elt, vs, st =>
    match vs with
    | [] => (.ok [], st)
    | v :: r =>
      let st := setVars st cf (fun l => aSet l x v)
      match eval T n cf elt st with
      | (.ok w, st) =>
        (match compLoop T n cf x elt r st with
         | (.ok ws, st) => (.ok (w :: ws), st)
         | y => y)
      | (.error ex, st) => (.error ex, st)
def callVal (T : List Entry) : Nat → Val → List Val → St → Except Exc Val × St
  | 0, _, _, st => (.error .fuel, st)
  | n + 1, f, args, st =>
    match f with
    | .fn path ps dflts body env =>
      (match bindArgs ps dflts args with
       | Option.none => (.error .typeError, st)
       | some vars =>
         let (st, cf) := newFrame st ⟨path, .func, env, vars⟩
         match execs T n cf body st with
         | (.ok (.ret v), st) => (.ok v, st)
         | (.ok .next, st) => (.ok .none, st)
         | (.error ex, st) => (.error ex, st))
    | .cls _ => if args.isEmpty then (.ok .inst, st) else (.error .typeError, st)
    | .builtin x => (callBuiltin x args, st)
    | _ => (.error .typeError, st)
def exec (T : List Entry) : Nat → Nat → Stmt → St → Except Exc Ctl × St
  | 0, _, _, st => (.error .fuel, st)
  | n + 1, fid, s, st =>
    match s with
    | .assign x e =>
      (match eval T n fid e st with
       | (.ok v, st) => (match store T st fid x v with | .ok st' => (.ok .next, st') | .error ex => (.error ex, st))
       | (.error ex, st) => (.error ex, st))
    | .aug x e =>
      (match load T st fid x with
       | .error ex => (.error ex, st)
       | .ok old =>
         match eval T n fid e st with
         | (.ok v, st) =>
           (match catVal old v with
            | .error ex => (.error ex, st)
            | .ok nv => match store T st fid x nv with | .ok st' => (.ok .next, st') | .error ex => (.error ex, st))
         | (.error ex, st) => (.error ex, st))
    | .glob _ => (.ok .next, st)
    | .nonl _ => (.ok .next, st)
    | .del x => (match delete T st fid x with | .ok st' => (.ok .next, st') | .error ex => (.error ex, st))
    | .fdef id f ps d body =>
      (match evals T n fid d st with
       | (.ok ds, st) =>
         (match store T st fid f (.fn (id :: pathOf st fid) ps ds body fid) with
          | .ok st' => (.ok .next, st') | .error ex => (.error ex, st))
       | (.error ex, st) => (.error ex, st))
    | .cdef id c body =>
      let p := id :: pathOf st fid
      let (st, cf) := newFrame st ⟨p, .cls, fid, []⟩
      (match execs T n cf body st with
       | (.ok .next, st) => (match store T st fid c (.cls p) with | .ok st' => (.ok .next, st') | .error ex => (.error ex, st))
       | (.ok (.ret _), st) => (.error .bad, st)
       | (.error ex, st) => (.error ex, st))
    | .obs e =>
      (match eval T n fid e st with
       | (.ok v, st) => (.ok .next, { st with trace := (0 :: enc v) :: st.trace })
       | (.error ex, st) => (.error ex, st))
    | .ret e =>
      (match eval T n fid e st with
       | (.ok v, st) => (.ok (.ret v), st)
       | (.error ex, st) => (.error ex, st))
    | .ifc c body =>
      (match eval T n fid c st with
       | (.ok v, st) => if truthy v then execs T n fid body st else (.ok .next, st)
       | (.error ex, st) => (.error ex, st))
def execs (T : List Entry) : Nat → Nat → Stmts → St → Except Exc Ctl × St
  | 0, _, _, st => (.error .fuel, st)
  | n + 1, fid, ss, st =>
    match ss with
    | .nil => (.ok .next, st)
    | .cons s r =>
      match exec T n fid s st with
      | (.ok .next, st) => execs T n fid r st
      | x => x
end

def Exc.code : Exc → Nat
  | .nameError => 0 | .unboundLocal => 1 | .typeError => 2 | .fuel => 3 | .bad => 4 | .delGlobal => 6

/-- one step of a call schedule: call a module-level name on string arguments, or an external
    `setattr(module, x, value)` -/
inductive Step
  | call (f : Name) (args : List (List Nat))
  | inject (x : Name) (v : List Nat)

def depthFuel : Nat := 400

def runSteps (T : List Entry) : List Step → St → St
  | [], st => st
  | .inject x v :: r, st => runSteps T r { st with glob := aSet st.glob x (.str v) }
  | .call f args :: r, st =>
    match globLoad st f with
    | .error ex => runSteps T r { st with trace := [2, ex.code] :: st.trace }
    | .ok vf =>
      match callVal T depthFuel vf (args.map Val.str) st with
      | (.ok v, st) => runSteps T r { st with trace := (1 :: enc v) :: st.trace }
      | (.error ex, st) => runSteps T r { st with trace := [2, ex.code] :: st.trace }

/-- raw trace of: module initialisation, then the schedule (exception code 6 = `del` of an unbound global) -/
def runRaw (T : List Entry) (prog : Stmts) (sched : List Step) : List (List Nat) :=
  let st0 : St := { frames := #[⟨[0], .modl, 0, []⟩] }
  match execs T depthFuel 0 prog st0 with
  | (.ok _, st) => (runSteps T sched st).trace.reverse
  | (.error ex, st) => ([3, ex.code] :: st.trace).reverse

/-- how the exception of `del <unbound global>` shows: NameError (0) or AttributeError (5) -/
def render (attrErr : Bool) : List Nat → List Nat
  | [2, 6] => [2, if attrErr then 5 else 0]
  | [3, 6] => [3, if attrErr then 5 else 0]
  | ev => ev

def run (attrErr : Bool) (T : List Entry) (prog : Stmts) (sched : List Step) : List (List Nat) :=
  (runRaw T prog sched).map (render attrErr)

/-- what Cython's symbol-table construction sees of the program -/
def cySees (v : Variant) (prog : Stmts) : Stmts := if v.keepsDeadDecls then prog else pruneSs prog

def refTable (prog : Stmts) : List Entry := refAll (scopeOf prog)
def cyTable (v : Variant) (prog : Stmts) : List Entry := cyAll v (scopeOf (cySees v prog))

def runRef (prog : Stmts) (sched : List Step) : List (List Nat) := run false (refTable prog) prog sched
def runCy (v : Variant) (prog : Stmts) (sched : List Step) : List (List Nat) :=
  run (!v.delGlobalNameError) (cyTable v prog) prog sched

end CyVerif.C01

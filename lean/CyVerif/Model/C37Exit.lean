import CyVerif.Model.C37
/-!
C37, leg 2 — the exit protocol of a `prange` region as an interleaving transition system
(`Nodes.py: ParallelStatNode.trap_parallel_exit / fetch_parallel_exception /
end_parallel_control_flow_block / restore_parallel_exception`, `ReturnStatNode` with `in_parallel`).

Generated code per iteration (`nogil` prange, body may `break`, `return v`, or raise in `with gil`):

    if (why < 2) {  body;  goto end;
      L_break:  why = 2; goto end;
      L_return: why = 3; goto end;             // after  #pragma omp critical(__pyx_returning) { __pyx_r = v; }
      L_error:  { PyGILState_Ensure();  flush(exc_type);
                  if (!exc_type) { ErrFetch(&exc_type,&exc_value,&exc_tb); ... }   // no else branch
                  PyGILState_Release(); }
                why = 4; goto end;
      end: #pragma omp flush(why) }

after the region (implicit barrier):  `if (exc_type) why = 4;  switch (why) { case 3: return; case 4: ErrRestore(exc...); goto error; }`.
An exception that was not fetched stays in the raising thread's thread state: for a worker thread it
is released when `PyGILState_Release` deletes the thread state at the end of the region, for the
master thread (thread 0) it is released by `ErrRestore`, which replaces the current exception.

Atomic steps (what the synchronisation guarantees): the whole `if (!exc_type) {fetch}` block (GIL held),
the write of `__pyx_r` (omp critical), each single store to `why`.  The read of `why` in the guard is
NOT synchronised with the stores (flush only after an iteration): the model lets a thread run an
iteration whatever `why` is (stale read) but lets it skip only if `why >= 2`.
Exception objects are named by the iteration that raised them.
-/
namespace CyVerif.C37

inductive Kind where
  | cont | brk | ret | raise
  deriving DecidableEq, Repr

inductive PC where
  | idle | setWhy (c : Nat) | writeRet (v : Nat) | fetch | finished
  deriving DecidableEq, Repr

structure Cfg where
  n : Nat                 -- number of threads in the team; thread 0 is the master
  kinds : Nat → Kind      -- how iteration k ends
  guarded : Bool          -- `if (!parallel_exc_type)` around the fetch (present in the source)
  preferErr : Bool        -- `if (parallel_exc_type) why = 4;` after the region (present in the source)

structure St where
  todo : Nat → List Nat        -- remaining iterations of each thread
  pc : Nat → PC
  cur : Nat → Option Nat       -- exception set in the thread state of each thread
  slot : Option Nat            -- shared parallel_exc_type/value/tb
  why : Nat
  ret : Option Nat             -- __pyx_r as written inside the region
  released : List Nat          -- release events (multiset)
  ran : List Nat               -- ghost: iterations whose body was executed
  skipped : List Nat           -- ghost: iterations skipped by the guard

/-- One atomic step of thread `t`; `skip` chooses the guard outcome when the thread is at the loop head. -/
def step (c : Cfg) (st : St) (t : Nat) (skip : Bool) : Option St :=
  if t < c.n then
    match st.pc t, st.todo t with
    | .idle, k :: rest =>
      if skip then
        if 2 ≤ st.why then some { st with todo := upd st.todo t rest, skipped := k :: st.skipped } else none
      else
        match c.kinds k with
        | .cont => some { st with todo := upd st.todo t rest, ran := k :: st.ran }
        | .brk => some { st with todo := upd st.todo t rest, ran := k :: st.ran, pc := upd st.pc t (.setWhy 2) }
        | .ret => some { st with todo := upd st.todo t rest, ran := k :: st.ran, pc := upd st.pc t (.writeRet k) }
        | .raise => some { st with todo := upd st.todo t rest, ran := k :: st.ran, pc := upd st.pc t .fetch,
                                   released := (st.cur t).toList ++ st.released, cur := upd st.cur t (some k) }
    | .idle, [] =>
      if t = 0 then some { st with pc := upd st.pc t .finished }
      else some { st with pc := upd st.pc t .finished, released := (st.cur t).toList ++ st.released,
                          cur := upd st.cur t none }
    | .setWhy v, _ => some { st with why := v, pc := upd st.pc t .idle }
    | .writeRet v, _ => some { st with ret := some v, pc := upd st.pc t (.setWhy 3) }
    | .fetch, _ =>
      if c.guarded && st.slot.isSome then some { st with pc := upd st.pc t (.setWhy 4) }
      else some { st with slot := st.cur t, cur := upd st.cur t none, pc := upd st.pc t (.setWhy 4) }
    | .finished, _ => none
  else none

def runActs (c : Cfg) (st : St) : List (Nat × Bool) → Option St
  | [] => some st
  | (t, sk) :: rest => match step c st t sk with
    | some st' => runActs c st' rest
    | none => none

def initSt (parts : List (List Nat)) : St :=
  { todo := fun t => parts.getD t [], pc := fun _ => .idle, cur := fun _ => none, slot := none, why := 0,
    ret := none, released := [], ran := [], skipped := [] }

inductive Outcome where
  | raise (e : Option Nat) | ret (v : Option Nat) | fall (why : Nat)
  deriving DecidableEq, Repr

def allFinished (c : Cfg) (st : St) : Bool := (List.range c.n).all fun t => st.pc t == .finished

/-- The code after the parallel region, executed by the master. -/
def finish (c : Cfg) (st : St) : Option (St × Outcome) :=
  if allFinished c st then
    let why := if c.preferErr && st.slot.isSome then 4 else st.why
    if why = 3 then some ({ st with why := why }, .ret st.ret)
    else if why = 4 then
      some ({ st with why := why, slot := none, cur := upd st.cur 0 st.slot,
                      released := (st.cur 0).toList ++ st.released }, .raise st.slot)
    else some ({ st with why := why }, .fall why)
  else none

/-- What `end_parallel_control_flow_block` emitted for ONE compiled loop: it depends on the STATIC shape of the body
(which labels are used): the fix-up `if (exc_type) why = 4;`, `case 3: goto return`, `case 4: restore; goto error`. -/
structure Emit where
  fixup : Bool
  caseRet : Bool
  caseErr : Bool
  deriving DecidableEq, Repr

/-- Current source: fix-up and `case 4` iff the body can raise (error label used), `case 3` iff it contains a `return`. -/
def srcEmit (hasRaise hasRet : Bool) : Emit := { fixup := hasRaise, caseRet := hasRet, caseErr := hasRaise }

/-- The code after the region as emitted for a given static shape (a `why` without a case falls through). -/
def finishEmit (e : Emit) (c : Cfg) (st : St) : Option (St × Outcome) :=
  if allFinished c st then
    let why := if e.fixup && st.slot.isSome then 4 else st.why
    if why = 3 && e.caseRet then some ({ st with why := why }, .ret st.ret)
    else if why = 4 && e.caseErr then
      some ({ st with why := why, slot := none, cur := upd st.cur 0 st.slot,
                      released := (st.cur 0).toList ++ st.released }, .raise st.slot)
    else some ({ st with why := why }, .fall why)
  else none

/-- The documented best-effort outcome set, as a function of the iterations that really ran. -/
def allowedOutcome (kinds : Nat → Kind) (ran : List Nat) : Outcome → Bool
  | .raise (some e) => ran.contains e && kinds e == .raise
  | .raise none => false
  | .ret (some v) => !(ran.any fun k => kinds k == .raise) && ran.contains v && kinds v == .ret
  | .ret none => false
  | .fall w =>
    !(ran.any fun k => kinds k == .raise) &&
    ((w == 0 && ran.all fun k => kinds k == .cont) || (w == 2 && ran.any fun k => kinds k == .brk))

end CyVerif.C37

import CyVerif.Model.C50Dfa
/-!
Model of `Cython/Plex/Scanners.py`: `Scanner.run_machine_inlined` (with the
inlined `next_char`/`read_char`/`save_for_backup`/`back_up`), `scan_a_token`
and the `read` loop; `Lexicons.Lexicon.__init__`; the actions of `Actions.py`.
The input stream is the list of code points `text`; the refilling of `buffer`
in chunks is not modelled (`buffer[next_pos - buf_start_pos]` is `text[next_pos]`).
-/
namespace CyVerif.C50

/-- a value of `cur_char`: a one-character string, `BOL`, `EOL`, `EOF` or `''` -/
inductive CurChar where
  | chr (c : Nat) | bol | eol | eof | empty
  deriving DecidableEq, Repr

/-- the scanner fields saved by `save_for_backup` -/
structure Cursor where
  curPos : Nat
  curLine : Nat
  curLineStart : Nat
  curChar : CurChar
  inputState : Nat
  nextPos : Nat
  deriving DecidableEq, Repr

/-- `Scanner.__init__` -/
def Cursor.init : Cursor := ⟨0, 1, 0, .bol, 1, 0⟩

/-- the inlined `self.next_char()` -/
def nextChar (text : List Nat) (c : Cursor) : Cursor :=
  if c.inputState = 1 then
    match text[c.nextPos]? with
    | some ch =>
      if ch = 10 then { c with curPos := c.nextPos, nextPos := c.nextPos + 1, curChar := .eol, inputState := 2 }
      else { c with curPos := c.nextPos, nextPos := c.nextPos + 1, curChar := .chr ch }
    | none => { c with curPos := c.nextPos, curChar := .eol, inputState := 4 }
  else if c.inputState = 2 then { c with curChar := .chr 10, inputState := 3 }
  else if c.inputState = 3 then
    { c with curLine := c.curLine + 1, curLineStart := c.nextPos, curPos := c.nextPos, curChar := .bol, inputState := 1 }
  else if c.inputState = 4 then { c with curChar := .eof, inputState := 5 }
  else { c with curChar := .empty }

def lookupChars (c : Int) : List (Int × Int × Nat) → Option Nat
  | [] => none
  | (c0, c1, t) :: rest => if c0 ≤ c ∧ c < c1 then some t else lookupChars c rest

/-- `new_state = state.get(c, NOT_FOUND); if new_state is NOT_FOUND: new_state = c and state.get('else')` -/
def DState.step (st : DState) : CurChar → Option Nat
  | .chr c =>
    match lookupChars c st.chars with
    | some t => some t
    | none => st.els
  | .bol => st.bol
  | .eol => st.eol
  | .eof => st.eof
  | .empty => none

abbrev Dfa := List DState

def dstate (d : Dfa) (q : Nat) : DState := (d[q]?).getD ⟨[], none, none, none, none, none⟩

def curRank (c : Cursor) : Nat :=
  if c.inputState = 1 then 3 else if c.inputState = 2 then 5 else if c.inputState = 3 then 4
  else if c.inputState = 4 then 2 else if c.curChar = .empty then 0 else 1

/-- termination measure of the scanning loop -/
def curMeasure (text : List Nat) (c : Cursor) : Nat := 4 * (text.length - c.nextPos) + curRank c

theorem nextChar_measure (text : List Nat) (c : Cursor) (h : c.curChar ≠ .empty) :
    curMeasure text (nextChar text c) < curMeasure text c := by
  unfold nextChar curMeasure curRank
  by_cases h1 : c.inputState = 1
  · simp only [h1, if_true]
    cases hg : text[c.nextPos]? with
    | none => simp
    | some ch =>
      have hlt : c.nextPos < text.length := by
        rcases List.getElem?_eq_some_iff.1 hg with ⟨h, _⟩; exact h
      by_cases h10 : ch = 10 <;> simp [h10] <;> omega
  · by_cases h2 : c.inputState = 2
    · simp [h2]
    · by_cases h3 : c.inputState = 3
      · simp [h3]
      · by_cases h4 : c.inputState = 4
        · simp [h4]
        · simp [h1, h2, h3, h4, h]

theorem step_ne_empty {st : DState} {ch : CurChar} {t : Nat} (h : st.step ch = some t) : ch ≠ .empty := by
  intro he; subst he; simp [DState.step] at h

/-- the `while 1:` loop of `run_machine_inlined`; `b` is the backup
`(b_action, b_cur_pos, …)`; returns `(action, cursor written back to self)`. -/
def runLoop (d : Dfa) (text : List Nat) (q : Nat) (c : Cursor) (b : Option (Nat × Cursor)) :
    Option Nat × Cursor :=
  let b' := match (dstate d q).action with
    | some a => some (a, c)
    | none => b
  match _hs : (dstate d q).step c.curChar with
  | some q' => runLoop d text q' (nextChar text c) b'
  | none =>
    match b' with
    | some (a, cb) => (some a, cb)
    | none => (none, c)
termination_by curMeasure text c
decreasing_by exact nextChar_measure text c (step_ne_empty (by assumption))

/-- result of `scan_a_token` -/
inductive TokRes where
  | tok (text : List Nat) (action : Nat) (c : Cursor)
  | eof (c : Cursor)            -- `('', None)`
  | unrecognized                -- `raise Errors.UnrecognizedInput`
  deriving DecidableEq, Repr

/-- `scan_a_token()`; `eolFix` selects the variant with the proposed repair
(skip the implicit EOL of the last line, as Plex's `next_char()` call did). -/
def scanToken (eolFix : Bool) (d : Dfa) (text : List Nat) (q0 : Nat) (c : Cursor) : TokRes :=
  match runLoop d text q0 c none with
  | (some a, c') => .tok ((text.drop c.curPos).take (c'.curPos - c.curPos)) a c'
  | (none, c') =>
    if c'.curPos = c.curPos then
      let c'' := if eolFix ∧ c'.curChar = .eol ∧ c'.inputState = 4
        then { c' with curChar := .eof, inputState := 5 } else c'
      if c''.curChar = .eof then .eof c'' else .unrecognized
    else .unrecognized

end CyVerif.C50

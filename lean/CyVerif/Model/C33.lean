import CyVerif.Model.Util
import CyVerif.Model.C10Utf8
/-!
# C33 — Python ↔ C/C++ value conversions (conversion combinators)

Model of the conversion templates
* `Cython/Utility/CppConvert.pyx` (`string`, `vector`, `list`, `set`/`unordered_set`, `pair`,
  `map`/`unordered_map`, `complex` `.from_py` / `.to_py`),
* `Cython/Utility/CConvert.pyx` (`FromPyStructUtility`, `FromPyUnionUtility`, `carray.from_py`, `carray.to_py`),
* `Cython/Utility/TypeConversion.c` (`FromPyCTupleUtility`/`ToPyCTupleUtility`, `__Pyx_PyObject_AsStringAndSize`,
  `__Pyx_Py{Bytes,Unicode}_FromStringAndSize`, `__Pyx_PyObject_IsTrue`),
* and the way `PyrexTypes.py` composes them per element type (`CppClassType`, `CStructOrUnionType`,
  `CArrayType`, `CTupleType` `.create_{from,to}_py_utility_code`).

Leaves (C integer of width `w`/signedness — contract proved in C05 —, `double`, `bint`, `std::string`,
`char*`, `double complex`) are small total functions; everything above them is a combinator over the type
grammar `Ty`, and all theorems are by structural induction on `Ty` (any nesting depth).

Python values are trees `PyVal` (`gen` = an iterator without `__len__`, `other` = a plain `object()`),
C values are trees `CVal`: `std::set`/`std::map` are strictly sorted lists (C++ `operator<` = `CVal.lt`),
the unordered containers are represented by the same sorted list (their iteration order is not observable
after the conversion to a Python `set`/`dict`, the harness canonicalises it).
Floats are IEEE-754 binary64 bit patterns (`Nat`), never printed as decimals.
-/
namespace CyVerif.C33

/-- `c_string_type`/`c_string_encoding`: `bytes` = defaults (no implicit encoding);
`ascii`/`utf8` = `c_string_type=str` with that `c_string_encoding`. -/
inductive Mode where
  | bytes | ascii | utf8
  deriving DecidableEq, Repr

inductive Ty where
  | int (w : Nat) (sg : Bool)
  | dbl | bool | str | cstr | cplx
  | pair (a b : Ty)
  | vec (t : Ty) | lst (t : Ty) | set (t : Ty) | uset (t : Ty)
  | map (k v : Ty) | umap (k v : Ty)
  | struct (ns : List String) (ts : List Ty)
  | union (ns : List String) (ts : List Ty)
  | carray (t : Ty) (n : Nat)
  | ctuple (ts : List Ty)
  deriving Repr, Inhabited

inductive PyVal where
  | int (n : Int) | bool (b : Bool) | float (bits : Nat) | cplx (re im : Nat)
  | bytes (b : List Nat) | bytearray (b : List Nat) | str (s : List Nat)
  | list (xs : List PyVal) | tuple (xs : List PyVal) | set (xs : List PyVal) | fset (xs : List PyVal)
  | dict (kvs : List (PyVal × PyVal))
  | gen (xs : List PyVal) | none | other
  deriving Repr, Inhabited

inductive CVal where
  | int (n : Int) | dbl (bits : Nat) | bool (b : Bool) | str (b : List Nat) | cplx (re im : Nat)
  | pair (a b : CVal)
  | seq (xs : List CVal)                  -- vector, list, set, unordered_set, carray, ctuple, struct (field order)
  | map (kvs : List (CVal × CVal))        -- map, unordered_map
  | umember (i : Nat) (v : CVal)          -- union: the member that was set
  deriving Repr, Inhabited

abbrev R := Except String

/-! ## a total structural order on C values; on the key types (int, bool, string, pair, vector/list/set of
those) it is the C++ `operator<` (`std::less`), so sorted lists model `std::set`/`std::map` -/
def cmpNat (a b : Nat) : Ordering := if a < b then .lt else if b < a then .gt else .eq
def cmpInt (a b : Int) : Ordering := if a < b then .lt else if b < a then .gt else .eq
def Ordering.andThen (o : Ordering) (p : Ordering) : Ordering := match o with | .eq => p | o => o

/-- lexicographic order on byte strings (`std::string::compare`, unsigned bytes; a proper prefix is smaller) -/
def cmpBytes : List Nat → List Nat → Ordering
  | [], [] => .eq
  | [], _ :: _ => .lt
  | _ :: _, [] => .gt
  | a :: as, b :: bs => Ordering.andThen (cmpNat a b) (cmpBytes as bs)

def CVal.idx : CVal → Nat
  | .int _ => 0 | .dbl _ => 1 | .bool _ => 2 | .str _ => 3 | .cplx _ _ => 4 | .pair _ _ => 5
  | .seq _ => 6 | .map _ => 7 | .umember _ _ => 8

mutual
def CVal.cmp : CVal → CVal → Ordering
  | .int a, .int b => cmpInt a b
  | .dbl a, .dbl b => cmpNat a b
  | .bool a, .bool b => cmpNat a.toNat b.toNat
  | .str a, .str b => cmpBytes a b
  | .cplx a b, .cplx c d => Ordering.andThen (cmpNat a c) (cmpNat b d)
  | .pair a b, .pair c d => Ordering.andThen (CVal.cmp a c) (CVal.cmp b d)
  | .seq xs, .seq ys => CVal.cmpL xs ys
  | .map xs, .map ys => CVal.cmpM xs ys
  | .umember i a, .umember j b => Ordering.andThen (cmpNat i j) (CVal.cmp a b)
  | a, b => cmpNat a.idx b.idx
def CVal.cmpL : List CVal → List CVal → Ordering
  | [], [] => .eq
  | [], _ :: _ => .lt
  | _ :: _, [] => .gt
  | x :: xs, y :: ys => Ordering.andThen (CVal.cmp x y) (CVal.cmpL xs ys)
def CVal.cmpM : List (CVal × CVal) → List (CVal × CVal) → Ordering
  | [], [] => .eq
  | [], _ :: _ => .lt
  | _ :: _, [] => .gt
  | (a, b) :: xs, (c, d) :: ys =>
    Ordering.andThen (CVal.cmp a c) (Ordering.andThen (CVal.cmp b d) (CVal.cmpM xs ys))
end

def CVal.beq (a b : CVal) : Bool := CVal.cmp a b == .eq
def CVal.lt (a b : CVal) : Bool := CVal.cmp a b == .lt

/-- `std::set::insert`: keep the set strictly sorted, an equal element is not inserted again. -/
def setInsert (x : CVal) : List CVal → List CVal
  | [] => [x]
  | y :: ys =>
    if CVal.beq y x then y :: ys
    else if CVal.lt y x then y :: setInsert x ys
    else x :: y :: ys

/-- `std::map::insert(pair)`: an existing key keeps its FIRST value (insert does not overwrite). -/
def mapInsert (k v : CVal) : List (CVal × CVal) → List (CVal × CVal)
  | [] => [(k, v)]
  | (k', v') :: m =>
    if CVal.beq k' k then (k', v') :: m
    else if CVal.lt k' k then (k', v') :: mapInsert k v m
    else (k, v) :: (k', v') :: m

/-! ## leaves -/

def inRange (w : Nat) (sg : Bool) (n : Int) : Bool :=
  if sg then decide (-(2 ^ (w - 1) : Int) ≤ n) && decide (n < (2 ^ (w - 1) : Int))
  else decide (0 ≤ n) && decide (n < (2 ^ w : Int))

/-- C `(long long)` truncation of a binary64 bit pattern as done by `float.__int__` (`nb_int`):
    `inf` → OverflowError, `nan` → ValueError. -/
def floatTrunc (bits : Nat) : R Int :=
  let neg := bits / 2 ^ 63 % 2 == 1
  let e := bits / 2 ^ 52 % 2048
  let m := bits % 2 ^ 52
  if e == 2047 then (if m == 0 then .error "OverflowError" else .error "ValueError")
  else
    let mag : Nat := if e == 0 then 0 else
      let full := m + 2 ^ 52
      if e ≥ 1075 then full * 2 ^ (e - 1075) else full / 2 ^ (1075 - e)
    .ok (if neg then -(mag : Int) else (mag : Int))

/-- `PyLong_AsDouble`: round-half-even to binary64, OverflowError beyond the finite range. -/
def natToDouble (n : Nat) : Option Nat :=
  if n == 0 then some 0 else
  let len := n.log2 + 1
  if len ≤ 53 then
    let q := n * 2 ^ (53 - len)
    some ((len - 1 + 1023) * 2 ^ 52 + (q - 2 ^ 52))
  else
    let sh := len - 53
    let q := n / 2 ^ sh
    let r := n % 2 ^ sh
    let half := 2 ^ (sh - 1)
    let up := decide (r > half) || (r == half && q % 2 == 1)
    let q := if up then q + 1 else q
    let (q, ex) := if q == 2 ^ 53 then (2 ^ 52, len) else (q, len - 1)
    if ex > 1023 then none else some ((ex + 1023) * 2 ^ 52 + (q - 2 ^ 52))

def intToDouble (n : Int) : R Nat :=
  match natToDouble n.natAbs with
  | some b => .ok (if n < 0 then b + 2 ^ 63 else b)
  | none => .error "OverflowError"

/-- C05's contract for `__Pyx_PyLong_As_<type>` (value if it fits, else OverflowError, TypeError for
non-numbers) plus the `nb_int` path that also accepts floats (C05 finding `float-accepted-via-nb_int`). -/
def intLeaf (w : Nat) (sg : Bool) : PyVal → R Int
  | .int n => if inRange w sg n then .ok n else .error "OverflowError"
  | .bool b => .ok (if b then 1 else 0)
  | .float bits => do
      let n ← floatTrunc bits
      if inRange w sg n then .ok n else .error "OverflowError"
  | _ => .error "TypeError"

def dblLeaf : PyVal → R Nat
  | .float b => .ok b
  | .int n => intToDouble n
  | .bool b => .ok (if b then 0x3FF0000000000000 else 0)
  | _ => .error "TypeError"

def cplxLeaf : PyVal → R (Nat × Nat)
  | .cplx re im => .ok (re, im)
  | p => do let re ← dblLeaf p; .ok (re, 0)

def floatNonZero (bits : Nat) : Bool := bits % 2 ^ 63 != 0

/-- `__Pyx_PyObject_IsTrue` -/
def truthy : PyVal → Bool
  | .int n => n != 0
  | .bool b => b
  | .float b => floatNonZero b
  | .cplx re im => floatNonZero re || floatNonZero im
  | .bytes b => !b.isEmpty | .bytearray b => !b.isEmpty | .str s => !s.isEmpty
  | .list xs => !xs.isEmpty | .tuple xs => !xs.isEmpty | .set xs => !xs.isEmpty | .fset xs => !xs.isEmpty
  | .dict kvs => !kvs.isEmpty
  | .gen _ => true | .none => false | .other => true

def asciiEncode (s : List Nat) : R (List Nat) :=
  if s.all (· < 128) then .ok s else .error "UnicodeEncodeError"
def asciiDecode (b : List Nat) : R (List Nat) :=
  if b.all (· < 128) then .ok b else .error "UnicodeDecodeError"

def strEncode : Mode → List Nat → R (List Nat)
  | .bytes, _ => .error "TypeError"
  | .ascii, s => asciiEncode s
  | .utf8, s => match C10.utf8Encode s with | .ok b => .ok b | .err e => .error e

/-- `__Pyx_PyObject_AsStringAndSize` -/
def strLeaf (m : Mode) : PyVal → R (List Nat)
  | .bytes b => .ok b
  | .bytearray b => .ok b
  | .str s => strEncode m s
  | _ => .error "TypeError"

/-- `__Pyx_Py{Bytes,Unicode}_FromStringAndSize` (selected by `c_string_type`) -/
def strToPy : Mode → List Nat → R PyVal
  | .bytes, b => .ok (.bytes b)
  | .ascii, b => do let s ← asciiDecode b; .ok (.str s)
  | .utf8, b => match C10.utf8Decode b with | some s => .ok (.str s) | none => .error "UnicodeDecodeError"

/-- a `char*` is seen up to its first NUL (`strlen`) -/
def cTrunc (b : List Nat) : List Nat := b.takeWhile (· != 0)

/-! ## Python protocol helpers -/

/-- `iter(o)` exhausted -/
def iterate : PyVal → R (List PyVal)
  | .list xs => .ok xs | .tuple xs => .ok xs | .set xs => .ok xs | .fset xs => .ok xs | .gen xs => .ok xs
  | .dict kvs => .ok (kvs.map (·.1))
  | .bytes b => .ok (b.map fun x => .int (x : Nat))
  | .bytearray b => .ok (b.map fun x => .int (x : Nat))
  | .str s => .ok (s.map fun c => .str [c])
  | _ => .error "TypeError"

/-- `len(o)` when it exists (`None` = TypeError, swallowed by `carray.from_py`) -/
def pyLen : PyVal → Option Nat
  | .list xs => some xs.length | .tuple xs => some xs.length | .set xs => some xs.length
  | .fset xs => some xs.length | .dict kvs => some kvs.length
  | .bytes b => some b.length | .bytearray b => some b.length | .str s => some s.length
  | _ => none

/-- `PyMapping_Check` (has `mp_subscript`) -/
def isMapping : PyVal → Bool
  | .dict _ => true | .list _ => true | .tuple _ => true | .str _ => true | .bytes _ => true | .bytearray _ => true
  | _ => false

/-- `PySequence_Check` -/
def isSequence : PyVal → Bool
  | .list _ => true | .tuple _ => true | .str _ => true | .bytes _ => true | .bytearray _ => true
  | _ => false

def nameCps (n : String) : List Nat := n.toList.map Char.toNat

def isName (n : String) : PyVal → Bool
  | .str s => s == nameCps n
  | _ => false

def dictFind (n : String) : List (PyVal × PyVal) → Option PyVal
  | [] => none
  | (k, v) :: r => if isName n k then some v else dictFind n r

/-- `obj['name']` for a `PyMapping_Check` object: dict lookup (`KeyError` → `none`);
    list/tuple/str/bytes subscripted with a str raise TypeError -/
def subscript (n : String) : PyVal → R (Option PyVal)
  | .dict kvs => .ok (dictFind n kvs)
  | _ => .error "TypeError"

/-- `'name' in obj` -/
def contains (n : String) : PyVal → R Bool
  | .dict kvs => .ok (dictFind n kvs).isSome
  | .list xs => .ok (xs.any (isName n))
  | .tuple xs => .ok (xs.any (isName n))
  | .str s => .ok (decide (nameCps n = []) || (s.length ≥ (nameCps n).length && (List.range (s.length + 1 - (nameCps n).length)).any fun i => (s.drop i).take (nameCps n).length == nameCps n))
  | _ => .error "TypeError"

end CyVerif.C33

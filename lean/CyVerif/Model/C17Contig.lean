import CyVerif.Model.C17Spec
/-! C17 — `Cython/Utility/MemoryView_C.c`: `__pyx_check_strides`, `__pyx_check_suboffsets`,
`__pyx_verify_contig` and the axes loop of `__Pyx_ValidateAndInit_memviewslice`. -/
namespace CyVerif.C17

structure Axis where
  shape : Int
  stride : Int
  sub : Int
  spec : Nat      -- DIRECT 1, PTR 2, FULL 4, CONTIG 8, STRIDED 16, FOLLOW 32
  deriving DecidableEq, Repr

def bit (spec k : Nat) : Bool := spec / k % 2 = 1

/-- `__pyx_check_strides`; `none` = passes -/
def checkStrides (hasStrides hasSub : Bool) (itemsize : Int) (isLast : Bool) (a : Axis) : Option String :=
  if a.shape ≤ 1 then none
  else if hasStrides then
    if bit a.spec 8 ∧ (bit a.spec 2 ∨ bit a.spec 4) ∧ a.stride ≠ 8 then some "indirect-contig"
    else if bit a.spec 8 ∧ ¬ (bit a.spec 2 ∨ bit a.spec 4) ∧ a.stride ≠ itemsize then some "contig-dim"
    else if bit a.spec 32 ∧ (if a.stride < 0 then -a.stride else a.stride) < itemsize then some "follow-dim"
    else none
  else
    if bit a.spec 8 ∧ ¬ isLast then some "nostrides-contig"
    else if bit a.spec 2 then some "nostrides-ptr"
    else if hasSub then some "sub-nostrides"
    else none

/-- `__pyx_check_suboffsets` -/
def checkSub (hasSub : Bool) (a : Axis) : Option String :=
  if bit a.spec 1 ∧ hasSub ∧ a.sub ≥ 0 then some "not-direct"
  else if bit a.spec 2 ∧ (¬ hasSub ∨ a.sub < 0) then some "not-indirect"
  else none

/-- the F-order loop of `__pyx_verify_contig`, `acc` = running `stride` -/
def verifyF (itemsize : Int) : Int → List Axis → Bool
  | _, [] => true
  | acc, a :: as => if acc * itemsize ≠ a.stride ∧ a.shape > 1 then false else verifyF itemsize (acc * a.shape) as

/-- `__pyx_verify_contig` (flag 2 = F, 1 = C, 0 = none) -/
def verifyContig (flag : Nat) (itemsize : Int) (axes : List Axis) : Option String :=
  if flag = 2 then (if verifyF itemsize 1 axes then none else some "not-f-contig")
  else if flag = 1 then (if verifyF itemsize 1 axes.reverse then none else some "not-c-contig")
  else none

def checkAxes (hasStrides hasSub : Bool) (itemsize : Int) : List Axis → Option String
  | [] => none
  | a :: as =>
    match checkStrides hasStrides hasSub itemsize as.isEmpty a with
    | some e => some e
    | none => match checkSub hasSub a with
      | some e => some e
      | none => checkAxes hasStrides hasSub itemsize as

/-- the "Check axes" block of `__Pyx_ValidateAndInit_memviewslice` -/
def validateAxes (flag : Nat) (hasStrides hasSub : Bool) (itemsize len : Int) (axes : List Axis) : Option String :=
  if len > 0 then
    match checkAxes hasStrides hasSub itemsize axes with
    | some e => some e
    | none => if hasStrides then verifyContig flag itemsize axes else none
  else none

/-! reference: contiguity of a (shape, strides) description -/

/-- Fortran contiguity with running product `acc`: every axis of extent > 1 has stride itemsize * (product of the
    extents before it) -/
def FContigFrom (itemsize : Int) : Int → List Axis → Prop
  | _, [] => True
  | acc, a :: as => (a.shape > 1 → a.stride = itemsize * acc) ∧ FContigFrom itemsize (acc * a.shape) as

def FContig (itemsize : Int) (axes : List Axis) : Prop := FContigFrom itemsize 1 axes
def CContig (itemsize : Int) (axes : List Axis) : Prop := FContigFrom itemsize 1 axes.reverse

end CyVerif.C17

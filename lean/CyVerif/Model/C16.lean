import CyVerif.Model.Util
import CyVerif.Model.C16PySlice
/-!
Model of typed-memoryview indexing and slicing at the pinned commit:

* `Cython/Utility/MemoryView_C.c`, section `SliceMemoryviewSlice`:
  `__pyx_memoryview_slice_memviewslice` (one dimension: index or slice),
  sections `SimpleSlice`, `SliceIndex`, `ToughSlice` (the templates
  `MemoryViewSliceBufferEntry.generate_buffer_slice_code` instantiates);
* `Cython/Utility/MemoryView.pyx`: `memoryview.__getitem__`, `_unellipsify`,
  `_unellipsify_index_tuple`, `memview_slice`, `get_item_pointer`,
  `pybuffer_index`;
* `Cython/Compiler/MemoryView.py`: `unellipsify` (compile-time dimension
  accounting) and the per-index dispatch of `generate_buffer_slice_code`.

The model is parameterised by a `Variant` (which of the two repairs of the
slice arithmetic are applied); `Variant.current` is the code as it exists.
All arithmetic is on unbounded `Int`; C's `/` is `Int.tdiv`.  Pointers are
modelled as *paths*: a list of byte offsets, one per memory block reached by a
dereference of an indirect dimension (a direct buffer has a one-element path).
-/
namespace CyVerif.C16

/-- Which repairs of `__pyx_memoryview_slice_memviewslice` are applied. -/
structure Variant where
  /-- negative step: a start/stop that is still negative after adding the
  extent is clamped to `-1` (current code: to `0`). -/
  negClamp : Bool
  /-- `new_shape` is forced to 0 when `stop - start` and `step` have opposite
  signs (current code: only when the rounded-up quotient is negative). -/
  ceilFix : Bool
  /-- `_unellipsify_index_tuple` raises IndexError when the tuple has more items
  (not counting the first Ellipsis) than dimensions (current code: no check). -/
  tooMany : Bool := false
  deriving DecidableEq, Repr

def Variant.current : Variant := ⟨false, false, false⟩
/-- both repairs of the slice arithmetic (the candidate patch for F9/F14) -/
def Variant.fixed : Variant := ⟨true, true, false⟩

/-- `PY_SSIZE_T_MAX` on the LP64 platform the harness probes. -/
def ssizeMax : Int := 9223372036854775807

/-- Arguments `start, stop, step, have_start, have_stop, have_step`. -/
structure SliceArgs where
  start : Int
  stop : Int
  step : Int
  haveStart : Bool
  haveStop : Bool
  haveStep : Bool
  deriving DecidableEq, Repr

/-- Python-level slice → C arguments (`memview_slice`: `index.start or 0`,
`have_start = index.start is not None`, …; the compiler does the same for
constant slices with `"0"` for an omitted bound). -/
def SliceArgs.ofOptions (s e st : Option Int) : SliceArgs :=
  ⟨s.getD 0, e.getD 0, st.getD 0, s.isSome, e.isSome, st.isSome⟩

/-- `negative_step` of the C code. -/
def negStep (a : SliceArgs) : Prop := a.haveStep = true ∧ a.step < 0
instance (a : SliceArgs) : Decidable (negStep a) := by unfold negStep; exact inferInstance

/-- the effective step (`step = 1` when `!have_step`). -/
def effStep (a : SliceArgs) : Int := if a.haveStep then a.step else 1

/-- "check our bounds and set defaults", for `start`. -/
def clampStart (v : Variant) (shape : Int) (a : SliceArgs) : Int :=
  if a.haveStart then
    if a.start < 0 then
      let s := a.start + shape
      if s < 0 then (if v.negClamp = true ∧ negStep a then -1 else 0) else s
    else if a.start ≥ shape then (if negStep a then shape - 1 else shape)
    else a.start
  else (if negStep a then shape - 1 else 0)

/-- the same for `stop` (note `> shape`, and `shape` also for negative steps). -/
def clampStop (v : Variant) (shape : Int) (a : SliceArgs) : Int :=
  if a.haveStop then
    if a.stop < 0 then
      let s := a.stop + shape
      if s < 0 then (if v.negClamp = true ∧ negStep a then -1 else 0) else s
    else if a.stop > shape then shape
    else a.stop
  else (if negStep a then -1 else shape)

/-- `new_shape = (stop - start) / step; if remainder: ++new_shape; if (new_shape < 0) new_shape = 0;`
The repaired variant also zeroes it when `(stop < start) != negative_step`. -/
def newShape (v : Variant) (start stop step : Int) (neg : Prop) [Decidable neg] : Int :=
  let q := (stop - start).tdiv step
  let q := if (stop - start) - step * q ≠ 0 then q + 1 else q
  if q < 0 ∨ (v.ceilFix = true ∧ ¬ (stop < start ↔ neg)) then 0 else q

/-- Result of the slice arithmetic of one dimension. -/
structure DimSlice where
  start : Int
  stop : Int
  step : Int
  newShape : Int
  deriving DecidableEq, Repr

/-- The `is_slice` branch up to the stores: `ValueError` for a zero step, else
clamped start/stop, effective step and `new_shape`. -/
def sliceBounds (v : Variant) (shape : Int) (a : SliceArgs) : Res DimSlice :=
  if a.haveStep = true ∧ a.step = 0 then .err "ValueError" else
  let start := clampStart v shape a
  let stop := clampStop v shape a
  let step := effStep a
  .ok ⟨start, stop, step, newShape v start stop step (negStep a)⟩

/-- The `!is_slice` branch: wraparound and bounds check. -/
def indexBounds (shape i : Int) : Res Int :=
  let s := if i < 0 then i + shape else i
  if 0 ≤ s ∧ s < shape then .ok s else .err "IndexError"

/-- One source dimension. -/
structure Dim where
  shape : Int
  stride : Int
  suboffset : Int
  deriving DecidableEq, Repr

/-- The destination slice struct being filled (`dst`, `new_ndim = shape.length`,
`*suboffset_dim`).  `data` is a pointer path, last element = offset in the
current block. -/
structure Dst where
  shape : List Int
  strides : List Int
  suboffsets : List Int
  data : List Int
  suboffsetDim : Int
  deriving DecidableEq, Repr

def Dst.init : Dst := ⟨[], [], [], [0], -1⟩

def addLast : List Int → Int → List Int
  | [], x => [x]
  | [a], x => [a + x]
  | a :: as, x => a :: addLast as x

def modifyAt : List Int → Nat → Int → List Int
  | [], _, _ => []
  | a :: as, 0, x => (a + x) :: as
  | a :: as, n + 1, x => a :: modifyAt as n x

/-- "Add the slicing or indexing offsets to the right suboffset or base data". -/
def Dst.addOffset (d : Dst) (x : Int) : Dst :=
  if d.suboffsetDim < 0 then { d with data := addLast d.data x }
  else { d with suboffsets := modifyAt d.suboffsets d.suboffsetDim.toNat x }

/-- `dst->data = ((char **)(dst->data))[0] + suboffset`. -/
def Dst.deref (d : Dst) (suboffset : Int) : Dst := { d with data := d.data ++ [suboffset] }

/-- `__pyx_memoryview_slice_memviewslice(dst, shape, stride, suboffset, dim,
new_ndim, suboffset_dim, start, stop, step, have_*, is_slice)`; `new_ndim`
is `d.shape.length`. -/
def sliceMemviewslice (v : Variant) (d : Dst) (src : Dim) (a : SliceArgs) (isSlice : Bool) : Res Dst :=
  if isSlice then
    match sliceBounds v src.shape a with
    | .err e => .err e
    | .ok b =>
      let newNdim := d.shape.length
      let d1 : Dst := { d with strides := d.strides ++ [src.stride * b.step],
                               shape := d.shape ++ [b.newShape],
                               suboffsets := d.suboffsets ++ [src.suboffset] }
      let d2 := d1.addOffset (b.start * src.stride)
      if src.suboffset ≥ 0 then .ok { d2 with suboffsetDim := newNdim } else .ok d2
  else
    match indexBounds src.shape a.start with
    | .err e => .err e
    | .ok s =>
      let d2 := d.addOffset (s * src.stride)
      if src.suboffset ≥ 0 then
        if d.shape.length = 0 then .ok (d2.deref src.suboffset) else .err "IndexError"
      else .ok d2

/-! ### Run-time path: `memoryview.__getitem__` -/

/-- An element of a Python-level index. -/
inductive Item where
  | idx (i : Int)                 -- an object with `__index__`
  | slc (s e st : Option Int)     -- a `slice` with int-or-None fields
  | ell                           -- `Ellipsis`
  | none                          -- `None`
  | bad                           -- anything else
  deriving DecidableEq, Repr

def Item.full : Item := .slc .none .none .none

/-- conversion of a Python int to `Py_ssize_t` -/
def toSsize (x : Int) : Res Int :=
  if x > ssizeMax ∨ x < -ssizeMax - 1 then .err "OverflowError" else .ok x

def optToSsize : Option Int → Res Int
  | .none => .ok 0
  | .some x => toSsize x

/-- The `for dim, index in enumerate(indices)` loop of `memview_slice`; `dims`
is `p_src.{shape,strides,suboffsets}[dim:]`.  Reading past `ndim` is reported
as `ub:oob-dim` (the arrays have 8 slots, the tail is not initialised). -/
def memviewSliceLoop (v : Variant) : List Dim → List Item → Dst → Res Dst
  | _, [], d => .ok d
  | dims, .none :: rest, d =>
    -- newaxis: p_dst.shape[new_ndim] = 1; strides = 0; suboffsets = -1; `dim` still advances
    memviewSliceLoop v (dims.drop 1) rest
      { d with shape := d.shape ++ [1], strides := d.strides ++ [0], suboffsets := d.suboffsets ++ [-1] }
  | [], _ :: _, _ => .err "ub:oob-dim"
  | src :: dims, .idx i :: rest, d =>
    match toSsize i with
    | .err e => .err e
    | .ok ci =>
      match sliceMemviewslice v d src ⟨ci, 0, 0, false, false, false⟩ false with
      | .err e => .err e
      | .ok d' => memviewSliceLoop v dims rest d'
  | src :: dims, .slc s e st :: rest, d =>
    match optToSsize s, optToSsize e, optToSsize st with
    | .ok cs, .ok ce, .ok cst =>
      match sliceMemviewslice v d src ⟨cs, ce, cst, s.isSome, e.isSome, st.isSome⟩ true with
      | .err e => .err e
      | .ok d' => memviewSliceLoop v dims rest d'
    | .err e, _, _ => .err e
    | _, .err e, _ => .err e
    | _, _, .err e => .err e
  | _ :: _, .ell :: _, _ => .err "AttributeError"   -- `index.start` on Ellipsis (unreachable from __getitem__)
  | _ :: _, .bad :: _, _ => .err "AttributeError"

def memviewSlice (v : Variant) (dims : List Dim) (items : List Item) : Res Dst :=
  memviewSliceLoop v dims items Dst.init

/-- Python `list.__setitem__(j, x)` with wraparound and bounds check. -/
def pySet (l : List Item) (j : Int) (x : Item) : Res (List Item) :=
  let k := if j < 0 then j + l.length else j
  if 0 ≤ k ∧ k < l.length then .ok (l.set k.toNat x) else .err "IndexError"

/-- `for idx in range(first): result[idx] = index_tuple[idx]` -/
def copyHead : List Item → Nat → List Item → Res (List Item)
  | [], _, res => .ok res
  | x :: xs, pos, res =>
    match pySet res pos x with
    | .err e => .err e
    | .ok r => copyHead xs (pos + 1) r

/-- `for idx in range(1, n): item = …; if item is not Ellipsis: result[ellipsis_end + idx] = item` -/
def copyTail : List Item → Int → List Item → Res (List Item)
  | [], _, res => .ok res
  | x :: xs, pos, res =>
    if x = .ell then copyTail xs (pos + 1) res else
    match pySet res pos x with
    | .err e => .err e
    | .ok r => copyTail xs (pos + 1) r

def isIndexLike : Item → Bool
  | .idx _ => true
  | _ => false

/-- first loop of `_unellipsify_index_tuple`: `(have_slices, first_ellipsis_index)` or TypeError -/
def scanTuple : List Item → Nat → Bool → Option Nat → Res (Bool × Option Nat)
  | [], _, hs, fe => .ok (hs, fe)
  | .ell :: xs, pos, _, fe => scanTuple xs (pos + 1) true (if fe.isNone then some pos else fe)
  | .slc _ _ _ :: xs, pos, _, fe => scanTuple xs (pos + 1) true fe
  | .idx _ :: xs, pos, hs, fe => scanTuple xs (pos + 1) hs fe
  | .none :: _, _, _, _ => .err "TypeError"
  | .bad :: _, _, _, _ => .err "TypeError"

/-- `_unellipsify_index_tuple(index_tuple, ndim)` -/
def unellipsifyTuple (t : List Item) (ndim : Nat) : Res (Bool × List Item) :=
  match scanTuple t 0 false .none with
  | .err e => .err e
  | .ok (hs, .some first) =>
    let result := List.replicate ndim Item.full
    match copyHead (t.take first) 0 result with
    | .err e => .err e
    | .ok r1 =>
      let fromEll : Int := (t.length : Int) - first
      let ellEnd : Int := (ndim : Int) - fromEll
      match copyTail (t.drop (first + 1)) (ellEnd + 1) r1 with
      | .err e => .err e
      | .ok r2 => .ok (hs, r2)
  | .ok (hs, .none) =>
    if ndim > t.length then .ok (true, t ++ List.replicate (ndim - t.length) Item.full)
    else .ok (hs, t)

/-- A Python-level index: one object or a tuple. -/
inductive Index where
  | single (x : Item)
  | tuple (t : List Item)
  deriving DecidableEq, Repr

/-- `_unellipsify_index_tuple` with the optional too-many-indices check placed
after the scanning loop (a non-index item is still a TypeError first). -/
def unellipsifyTupleV (v : Variant) (t : List Item) (ndim : Nat) : Res (Bool × List Item) :=
  match scanTuple t 0 false .none with
  | .err e => .err e
  | .ok (_, fe) =>
    if v.tooMany = true ∧ (t.length : Int) - (if fe.isSome then 1 else 0) > ndim then .err "IndexError"
    else unellipsifyTuple t ndim

/-- `_unellipsify(index, ndim)` -/
def unellipsify (v : Variant) (ix : Index) (ndim : Nat) : Res (Bool × List Item) :=
  match ix with
  | .single .ell => .ok (true, List.replicate ndim Item.full)
  | .tuple t => unellipsifyTupleV v t ndim
  | .single (.slc s e st) =>
    if ndim = 1 then .ok (true, [.slc s e st])
    else .ok (true, .slc s e st :: List.replicate (ndim - 1) Item.full)
  | .single (.idx i) =>
    if ndim = 1 then .ok (false, [.idx i])
    else .ok (true, .idx i :: List.replicate (ndim - 1) Item.full)
  | .single .none => .err "TypeError"
  | .single .bad => .err "TypeError"

/-- `pybuffer_index(view, bufp, index, dim)` on a pointer path. -/
def pybufferIndex (src : Dim) (p : List Int) (index : Int) : Res (List Int) :=
  let i1 := if index < 0 then index + src.shape else index
  if index < 0 ∧ i1 < 0 then .err "IndexError"
  else if i1 ≥ src.shape then .err "IndexError"
  else
    let p1 := addLast p (i1 * src.stride)
    if src.suboffset ≥ 0 then .ok (p1 ++ [src.suboffset]) else .ok p1

/-- `get_item_pointer`: `for dim, idx in enumerate(index): itemp = pybuffer_index(…)` -/
def getItemPointer : List Dim → List Item → List Int → Res (List Int)
  | _, [], p => .ok p
  | [], _ :: _, _ => .err "ub:oob-dim"
  | src :: dims, .idx i :: rest, p =>
    match toSsize i with
    | .err e => .err e
    | .ok ci =>
      match pybufferIndex src p ci with
      | .err e => .err e
      | .ok p' => getItemPointer dims rest p'
  | _ :: _, _ :: _, _ => .err "TypeError"

/-- What `__getitem__` returns. -/
inductive Out where
  | self
  | scalar (p : List Int)
  | view (d : Dst)
  deriving DecidableEq, Repr

/-- `memoryview.__getitem__(self, index)` -/
def getitem (v : Variant) (dims : List Dim) (ix : Index) : Res Out :=
  match dims, ix with
  | [src], .single (.idx i) =>
    match toSsize i with
    | .err e => .err e
    | .ok ci =>
      match pybufferIndex src [0] ci with
      | .err e => .err e
      | .ok p => .ok (.scalar p)
  | _, .single .ell => .ok .self
  | _, _ =>
    match unellipsify v ix dims.length with
    | .err e => .err e
    | .ok (true, items) =>
      match memviewSlice v dims items with
      | .err e => .err e
      | .ok d => .ok (.view d)
    | .ok (false, items) =>
      match getItemPointer dims items [0] with
      | .err e => .err e
      | .ok p => .ok (.scalar p)

/-! ### Compile-time path: `unellipsify` + `generate_buffer_slice_code` (direct axes) -/

/-- `Cython.Compiler.MemoryView.unellipsify(indices, ndim)`; returns
`(have_slices, indices)`; items are `idx`, `slc`, `ell`, `none`. -/
def unellipsifyCTLoop (ndim nIndices : Int) : List Item → Bool → Bool → List Item → Bool × List Item
  | [], _, hs, acc => (hs, acc)
  | .ell :: xs, seen, _, acc =>
    if seen then unellipsifyCTLoop ndim nIndices xs true true (acc ++ [Item.full])
    else unellipsifyCTLoop ndim nIndices xs true true (acc ++ List.replicate (ndim - nIndices + 1).toNat Item.full)
  | x :: xs, seen, hs, acc =>
    let isSl := match x with | .slc _ _ _ => true | .none => true | _ => false
    unellipsifyCTLoop ndim nIndices xs seen (hs || isSl) (acc ++ [x])

def countNone (l : List Item) : Nat := (l.filter (· = Item.none)).length

def unellipsifyCT (items : List Item) (ndim : Nat) : Bool × List Item :=
  let newaxes := countNone items
  let nIndices : Int := (items.length : Int) - newaxes
  let (hs, result) := unellipsifyCTLoop ndim nIndices items false false []
  let resultLength := result.length - newaxes
  if resultLength < ndim then (true, result ++ List.replicate (ndim - resultLength) Item.full)
  else (hs, result)

/-- directives in effect at the indexing expression -/
structure Directives where
  wraparound : Bool
  boundscheck : Bool
  deriving DecidableEq, Repr

/-- `SliceIndex` template (all dimensions direct): optional wraparound,
optional bounds check; without the check an out-of-range index is an
out-of-bounds pointer (`ub:oob-index`). -/
def sliceIndexCT (dv : Directives) (src : Dim) (i : Int) : Res Int :=
  let i1 := if dv.wraparound = true ∧ i < 0 then i + src.shape else i
  if 0 ≤ i1 ∧ i1 < src.shape then .ok i1
  else if dv.boundscheck then .err "IndexError" else .err "ub:oob-index"

/-- The per-index loop of `generate_buffer_slice_code` for all-direct axes. -/
def bufferSliceLoop (v : Variant) (dv : Directives) : List Dim → List Item → Dst → Res Dst
  | _, [], d => .ok d
  | dims, .none :: rest, d =>
    bufferSliceLoop v dv dims rest
      { d with shape := d.shape ++ [1], strides := d.strides ++ [0], suboffsets := d.suboffsets ++ [-1] }
  | [], _ :: _, _ => .err "CompileError"
  | src :: dims, .slc .none .none .none :: rest, d =>
    -- SimpleSlice, access == 'direct'
    bufferSliceLoop v dv dims rest
      { d with shape := d.shape ++ [src.shape], strides := d.strides ++ [src.stride],
               suboffsets := d.suboffsets ++ [-1] }
  | src :: dims, .slc s e st :: rest, d =>
    -- ToughSlice
    match optToSsize s, optToSsize e, optToSsize st with
    | .ok cs, .ok ce, .ok cst =>
      match sliceMemviewslice v d src ⟨cs, ce, cst, s.isSome, e.isSome, st.isSome⟩ true with
      | .err e => .err e
      | .ok d' => bufferSliceLoop v dv dims rest d'
    -- a bound given as a Python object is coerced at run time
    | .err e, _, _ => .err e
    | _, .err e, _ => .err e
    | _, _, .err e => .err e
  | src :: dims, .idx i :: rest, d =>
    match toSsize i with
    | .err e => .err e
    | .ok ci =>
      match sliceIndexCT dv src ci with
      | .err e => .err e
      | .ok i1 => bufferSliceLoop v dv dims rest { d with data := addLast d.data (i1 * src.stride) }
  | _ :: _, .ell :: _, _ => .err "CompileError"
  | _ :: _, .bad :: _, _ => .err "CompileError"

/-- full element access `a[i, j, …]` (`MemoryViewIndexNode` → buffer lookup):
every index is wrapped/checked left to right (all checks before the access). -/
def elementLoop (dv : Directives) : List Dim → List Item → Int → Res Int
  | [], [], off => .ok off
  | src :: dims, .idx i :: rest, off =>
    match toSsize i with
    | .err _ => .err "CompileError"
    | .ok ci =>
      match sliceIndexCT dv src ci with
      | .err e => .err e
      | .ok i1 => elementLoop dv dims rest (off + i1 * src.stride)
  | _, _, _ => .err "CompileError"

/-- A typed-memoryview subscript `a[items]` in compiled code, all axes direct. -/
def ctGetitem (v : Variant) (dv : Directives) (dims : List Dim) (items : List Item) : Res Out :=
  if dims.any (fun d => d.suboffset ≥ 0) then .err "bad-op" else
  if items.any (· = Item.bad) then .err "CompileError" else
  let (hs, ixs) := unellipsifyCT items dims.length
  let newaxes := countNone items
  if ixs.length - newaxes > dims.length then .err "CompileError"   -- "Too many indices specified"
  else if hs ∧ ixs.all isIndexLike then
    -- `a[..., i, j]` with every dimension indexed: MemoryViewSliceType with no axes,
    -- `is_cf_contig` indexes an empty list ("Compiler crash", IndexError)
    .err "CompilerCrash"
  else if hs then
    match bufferSliceLoop v dv dims ixs Dst.init with
    | .err e => .err e
    | .ok d => .ok (.view d)
  else
    match elementLoop dv dims ixs 0 with
    | .err e => .err e
    | .ok off => .ok (.scalar [off])

/-! ### Line protocol -/

def inSsize (x : Int) : Bool := decide (-ssizeMax - 1 ≤ x ∧ x ≤ ssizeMax)

def renderOut : Res Out → String
  | .err e => if e.startsWith "ub:" then "ub " ++ (e.drop 3).toString
              else if e = "bad-op" then "bad-op" else "err " ++ e
  | .ok .self => "ok self"
  | .ok (.scalar p) => if p.all inSsize then "ok scalar " ++ intsToStr p else "ub overflow"
  | .ok (.view d) =>
    if d.strides.all inSsize ∧ d.data.all inSsize ∧ d.suboffsets.all inSsize then
      s!"ok view {intsToStr d.shape} {intsToStr d.strides} {intsToStr d.suboffsets} {intsToStr d.data}"
    else "ub overflow"

def parseOpt (s : String) : Option (Option Int) :=
  if s = "_" then some .none else (parseInt? s).map some

/-- item tokens: `E`, `N`, `X`, `i<int>`, `s<a>:<b>:<c>` with `_` for None -/
def parseItem (s : String) : Option Item :=
  if s = "E" then some .ell
  else if s = "N" then some .none
  else if s = "X" then some .bad
  else if s.startsWith "i" then (parseInt? (s.drop 1).toString).map Item.idx
  else if s.startsWith "s" then
    match (s.drop 1).toString.splitOn ":" with
    | [a, b, c] =>
      match parseOpt a, parseOpt b, parseOpt c with
      | some a, some b, some c => some (.slc a b c)
      | _, _, _ => .none
    | _ => .none
  else .none

def parseVariant (s : String) : Option Variant :=
  if s = "cur" then some Variant.current
  else if s = "fix" then some Variant.fixed
  else if s = "neg" then some ⟨true, false, false⟩
  else if s = "ceil" then some ⟨false, true, false⟩
  else if s = "cur+tm" then some ⟨false, false, true⟩
  else if s = "fix+tm" then some ⟨true, true, true⟩
  else if s = "neg+tm" then some ⟨true, false, true⟩
  else if s = "ceil+tm" then some ⟨false, true, true⟩
  else .none

def parseInts (l : List String) : Option (List Int) := l.mapM parseInt?

def mkDims : List Int → List Int → List Int → List Dim
  | a :: as, b :: bs, c :: cs => ⟨a, b, c⟩ :: mkDims as bs cs
  | _, _, _ => []

/-- `<ndim> shapes… strides… suboffsets…` then the rest -/
def parseDims (l : List String) : Option (List Dim × List String) :=
  match l with
  | n :: rest =>
    match parseNat? n with
    | some n =>
      if rest.length < 3 * n then .none else
      match parseInts (rest.take (3 * n)) with
      | some xs => some (mkDims (xs.take n) ((xs.drop n).take n) (xs.drop (2 * n)), rest.drop (3 * n))
      | .none => .none
    | .none => .none
  | [] => .none

def renderAdj : Res (PySlice.Adj × Int) → String
  | .err e => "err " ++ e
  | .ok (a, st) =>
    let sel := if a.len ≤ 64 then intsToStr (PySlice.selected a st) else "-"
    s!"ok {a.start} {a.stop} {st} {a.len} {sel}"

def handleModel : List String → String
  -- run-time: `rt <variant> <ndim> dims… T|O items…`
  | "rt" :: v :: rest =>
    match parseVariant v, parseDims rest with
    | some v, some (dims, kind :: items) =>
      match items.mapM parseItem with
      | some its =>
        if kind = "T" then renderOut (getitem v dims (.tuple its))
        else if kind = "O" then
          match its with
          | [x] => renderOut (getitem v dims (.single x))
          | _ => "bad-op"
        else "bad-op"
      | .none => "bad-op"
    | _, _ => "bad-op"
  -- compile-time: `ct <variant> <wraparound 0|1> <boundscheck 0|1> <ndim> dims… items…`
  | "ct" :: v :: w :: b :: rest =>
    match parseVariant v, parseDims rest with
    | some v, some (dims, items) =>
      match items.mapM parseItem with
      | some its =>
        if (w = "0" ∨ w = "1") ∧ (b = "0" ∨ b = "1") then
          renderOut (ctGetitem v ⟨w = "1", b = "1"⟩ dims its)
        else "bad-op"
      | .none => "bad-op"
    | _, _ => "bad-op"
  -- reference semantics: `py indices <n> a b c` (slice(a,b,c).indices(n) + selected indices)
  | ["py", "indices", n, a, b, c] =>
    match parseInt? n, parseOpt a, parseOpt b, parseOpt c with
    | some n, some a, some b, some c => if n < 0 then "bad-op" else renderAdj (PySlice.indices n a b c)
    | _, _, _, _ => "bad-op"
  -- `py unpack <n> a b c`: PySlice_Unpack + PySlice_AdjustIndices with M = PY_SSIZE_T_MAX
  | ["py", "unpack", n, a, b, c] =>
    match parseInt? n, parseOpt a, parseOpt b, parseOpt c with
    | some n, some a, some b, some c =>
      if n < 0 ∨ n > ssizeMax then "bad-op" else renderAdj (PySlice.unpackAdjust ssizeMax n a b c)
    | _, _, _, _ => "bad-op"
  | ["py", "index", n, i] =>
    match parseInt? n, parseInt? i with
    | some n, some i => if n < 0 then "bad-op" else (PySlice.index n i).render
    | _, _ => "bad-op"
  | _ => "bad-op"

end CyVerif.C16

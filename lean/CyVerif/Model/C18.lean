import CyVerif.Model.C18Int
import CyVerif.Model.C18Spec
import CyVerif.Model.C18Parse
import CyVerif.Model.C18Rewrite
import CyVerif.Model.C18Percent
import CyVerif.Model.C18Field
import CyVerif.Model.C18Join
import CyVerif.Model.C18Dedup
/-! C18 — line-protocol entry of the C18 models. -/
namespace CyVerif.C18

def parseFmt? : String → Option Fmt
  | "d" => some .d | "o" => some .o | "x" => some .x | "X" => some .X | _ => none

/-- padding char token: `s` = ' ', `z` = '0', or a decimal code point -/
def parsePad? : String → Option Char
  | "s" => some ' ' | "z" => some '0'
  | t => match t.toNat? with
    | some n => if n < 128 then some (Char.ofNat n) else none
    | none => none

def parseBool? : String → Option Bool
  | "0" => some false | "1" => some true | _ => none

def parseOrdVar? : String → Option OrdVariant
  | "o" => some .orig | "f" => some .fixed | _ => none

/-- two bits: rejectSignC, rejectGtZero (`o` = 00, `f` = 11) -/
def parseParseVar? : String → Option ParseVariant
  | "o" => some .orig | "f" => some .fixed
  | "00" => some ⟨false, false⟩ | "01" => some ⟨false, true⟩
  | "10" => some ⟨true, false⟩ | "11" => some ⟨true, true⟩
  | _ => none

def fmtCName : FmtC → String
  | .num .d => "d" | .num .o => "o" | .num .x => "x" | .num .X => "X" | .chr => "c"

/-- two bits: flags, strictText (`o` = 00, `f` = 11) -/
def parseBuildVar? : String → Option BuildVariant
  | "o" => some .orig | "f" => some .fixed
  | "00" => some ⟨false, false⟩ | "01" => some ⟨false, true⟩
  | "10" => some ⟨true, false⟩ | "11" => some ⟨true, true⟩
  | _ => none

def parseBits? (s : String) : Option (List Bool) :=
  if s == "-" then some [] else
  s.toList.foldr (fun c acc => match c, acc with
    | '0', some l => some (false :: l) | '1', some l => some (true :: l) | _, _ => none) (some [])

def Piece.render : Piece → String
  | .lit s => "L:" ++ encText s
  | .field i conv spec => s!"F:{i}:{match conv with | some c => String.singleton c | none => "-"}:{encText spec}"

/-- argument token: `i:<int>` or `s:<text>:<repr>:<ascii>` (texts as code points) -/
def parseObj? (t : String) : Option PObj :=
  match t.splitOn ":" with
  | ["i", v] => v.toInt?.map PObj.int
  | ["s", s, r, a] =>
    match decText s, decText r, decText a with
    | some s, some r, some a => some (.str (cps s) (cps r) (cps a))
    | _, _, _ => none
  | ["o", s, r, a] =>
    match decCps s, decCps r, decCps a with
    | some s, some r, some a => some (.other s r a)
    | _, _, _ => none
  | _ => none

def parseObjs? (ts : List String) : Option (List PObj) :=
  ts.foldr (fun t acc => match parseObj? t, acc with | some o, some l => some (o :: l) | _, _ => none) (some [])

/-- argument token: an object token or `c:<n>:<signed>:<v>` -/
def parseArg? (t : String) : Option Arg :=
  match t.splitOn ":" with
  | ["c", n, sg, v] =>
    match n.toNat?, parseBool? sg, v.toInt? with
    | some n, some sg, some v => if n = 0 then none else some (.cint n sg v)
    | _, _, _ => none
  | _ => (parseObj? t).map Arg.obj

def parseArgs? (ts : List String) : Option (List Arg) :=
  ts.foldr (fun t acc => match parseArg? t, acc with | some o, some l => some (o :: l) | _, _ => none) (some [])

/-- four bits: rejectSignC, rejectGtZero, ordinal range check fixed, convAware -/
def parseSrcVar? (s : String) : Option SrcVariant :=
  match s.toList with
  | [a, b, c, d] =>
    match parseBool? (String.singleton a), parseBool? (String.singleton b), parseBool? (String.singleton c),
        parseBool? (String.singleton d) with
    | some a, some b, some c, some d => some ⟨⟨a, b⟩, if c then .fixed else .orig, d⟩
    | _, _, _, _ => none
  | _ => none

def parseConv? : String → Option (Option Char)
  | "-" => some none | "s" => some (some 's') | "r" => some (some 'r') | "a" => some (some 'a')
  | "d" => some (some 'd') | _ => none

/-- join node token: `L:<text>` literal, `V:<text>` run-time value counted for the kind,
`A:<text>` run-time value assumed ASCII by the compiler -/
def parseJNode? (t : String) : Option JNode :=
  match t.splitOn ":" with
  | ["L", s] => (decCps s).map JNode.lit
  | ["V", s] => (decCps s).map (JNode.val · false)
  | ["A", s] => (decCps s).map (JNode.val · true)
  | _ => none

def renderOpt : Option OutU → String
  | some r => r.render
  | none => "unmodelled"

def handle : List String → String
  | ["cint", n, sg, v, w, pad, fmt] =>
    match n.toNat?, parseBool? sg, v.toInt?, w.toInt?, parsePad? pad, parseFmt? fmt with
    | some n, some sg, some v, some w, some pad, some fmt =>
      if n = 0 then "bad-op" else (cintToPyUnicode n sg v w pad fmt).render
    | _, _, _, _, _, _ => "bad-op"
  | ["pyint", fmt, zero, w, v] =>
    match parseFmt? fmt, parseBool? zero, w.toNat?, v.toInt? with
    | some fmt, some z, some w, some v => Out.render (.text (pyFormatInt fmt z w v))
    | _, _, _, _ => "bad-op"
  | ["cchr", var, n, sg, v, w, pad] =>
    match parseOrdVar? var, n.toNat?, parseBool? sg, v.toInt?, w.toInt?, parsePad? pad with
    | some var, some n, some sg, some v, some w, some pad => (ucharToPyUnicode var n sg v w pad).render
    | _, _, _, _, _, _ => "bad-op"
  | ["pychr", pad, w, v] =>
    match parsePad? pad, w.toNat?, v.toInt? with
    | some pad, some w, some v => (pyFormatChr pad w v).render
    | _, _, _ => "bad-op"
  | ["build", var, tmpl, bits] =>
    match parseBuildVar? var, decText tmpl, parseBits? bits with
    | some var, some tmpl, some bits =>
      match buildFstring var tmpl bits with
      | some ps => "ok " ++ (if ps.isEmpty then "empty" else "|".intercalate (ps.map Piece.render))
      | none => "ok none"
    | _, _, _ => "bad-op"
  | "percent" :: tmpl :: args =>
    match decText tmpl, parseObjs? args with
    | some tmpl, some args => renderOpt (pyPercent tmpl args)
    | _, _ => "bad-op"
  | "evalbuild" :: var :: tmpl :: args =>
    match parseBuildVar? var, decText tmpl, parseObjs? args with
    | some var, some tmpl, some args =>
      match buildFstring var tmpl (args.map fun _ => false) with
      | some ps => renderOpt (evalPieces ps args [])
      | none => "ok none"
    | _, _, _ => "bad-op"
  | ["field", sv, arg, conv, spec] =>
    match parseSrcVar? sv, parseArg? arg, parseConv? conv, decText spec with
    | some sv, some arg, some conv, some spec => renderOpt (evalFieldArg sv conv spec arg)
    | _, _, _, _ => "bad-op"
  | ["usesc", sv, conv, spec] =>
    match parseSrcVar? sv, parseConv? conv, decText spec with
    | some sv, some conv, some spec =>
      match fieldFastPath sv conv spec with
      | some (ft, w, pad) => s!"ok {fmtCName ft} {w} {if pad = '0' then "z" else "s"}"
      | none => "ok none"
    | _, _, _ => "bad-op"
  | "evalbuildx" :: bv :: sv :: tmpl :: args =>
    match parseBuildVar? bv, parseSrcVar? sv, decText tmpl, parseArgs? args with
    | some bv, some sv, some tmpl, some args =>
      match buildFstring bv tmpl (args.map fun _ => false) with
      | some ps => renderOpt (evalPiecesA sv ps args [])
      | none => "ok none"
    | _, _, _, _ => "bad-op"
  | "join" :: nodes =>
    match nodes.foldr (fun t acc => match parseJNode? t, acc with | some o, some l => some (o :: l) | _, _ => none) (some []) with
    | some ns => (pyxJoin (ns.map JNode.text) (joinArgs ns).1 (joinArgs ns).2).render
    | none => "bad-op"
  | ["asciispec", kf, spec] =>
    match parseBool? kf, decText spec with
    | some kf, some spec => if assumedAsciiSpec kf spec then "ok 1" else "ok 0"
    | _, _ => "bad-op"
  | "rep" :: kc :: sv :: arg :: toks =>
    -- one argument, pieces `L:<text>` / `F:<conv>` (spec-free placeholders on argument 0)
    match parseBool? kc, parseSrcVar? sv, parseArg? arg with
    | some kc, some sv, some arg =>
      let ps : Option (List Piece) := toks.foldr (fun t acc =>
        match t.splitOn ":", acc with
        | ["L", s], some l => (decText s).map (fun s => Piece.lit s :: l)
        | ["F", c], some l => (parseConv? c).map (fun c => Piece.field 0 c [] :: l)
        | _, _ => none) (some [])
      match ps with
      | some ps => renderOpt (evalPiecesD kc sv ps [arg] [] [])
      | none => "bad-op"
    | _, _, _ => "bad-op"
  | ["tokenize", tmpl] =>
    match decText tmpl with
    | some tmpl => "ok " ++ (if (tokenize tmpl).isEmpty then "empty" else "|".intercalate ((tokenize tmpl).map encText))
    | none => "bad-op"
  | ["parsefmt", var, spec] =>
    match parseParseVar? var, decText spec with
    | some var, some spec =>
      if spec.any (fun c => c.toNat ≥ 128) then "unmodelled" else
      match parseFormat var spec with
      | some (ft, w, pad) => s!"ok {fmtCName ft} {w} {if pad = '0' then "z" else "s"}"
      | none => "ok none"
    | _, _ => "bad-op"
  | ["pyformat", "int", v, spec] =>
    match v.toInt?, decText spec with
    | some v, some spec =>
      match pyFormat (.int v) spec with
      | some r => r.render
      | none => "unmodelled"
    | _, _ => "bad-op"
  | ["pyformat", "str", s, spec] =>
    match decText s, decText spec with
    | some s, some spec =>
      match pyFormat (.str (cps s)) spec with
      | some r => r.render
      | none => "unmodelled"
    | _, _ => "bad-op"
  | _ => "bad-op"

end CyVerif.C18

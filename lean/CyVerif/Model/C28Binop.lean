import CyVerif.Model.C28
/-!
# C28 — binary / in-place / ternary operator dispatch

`F`  : the C function instantiated from `ExtensionTypes.c :: BinopSlot` for one cdef class
`S`  : CPython's `slot_nb_*` (`SLOT1BINFULL`, and `slot_nb_power` for the 3-argument form)
`binaryOp1`, `binop`, `inplace` : `Objects/abstract.c`
-/
namespace CyVerif.C28

/-- the three binary-operator methods -/
inductive BM | op | rop | iop
  deriving DecidableEq, Repr

def BM.toMeth : BM → Meth | .op => .op | .rop => .rop | .iop => .iop
def BM.isIop : BM → Bool | .iop => true | _ => false
def hasB (C : Cls) : BM → Bool | .op => C.op | .rop => C.rop | .iop => C.iop

/-- what a slot function hands back -/
inductive Res
  | val (c : Call)        -- the value returned by that call
  | ni                    -- NotImplemented
  | attrErr               -- AttributeError raised by `vectorcall_method` (3-argument pow)
  deriving DecidableEq, Repr

/-- final outcome of the operator expression -/
inductive Out
  | val (c : Call)
  | typeError
  | attrError
  | niLeak                -- the object `NotImplemented` is returned as the result
  deriving DecidableEq, Repr

inductive Tree
  | done (o : Out)
  | ask (c : Call) (ret ni : Tree)
  deriving DecidableEq, Repr

/-- continuation-passing computations that may call user methods -/
abbrev M := (Res → Tree) → Tree

def user (c : Call) : M := fun k => .ask c (k (.val c)) (k .ni)
def pureM (r : Res) : M := fun k => k r

/-- attribute lookup along the base chain -/
def lookupF (w : World) (cfg : OpCfg) (m : BM) : Nat → Nat → Option Attr
  | 0, _ => none
  | f + 1, d =>
    let C := clsOf w d
    let up : Option Attr := match C.base with | none => none | some b => lookupF w cfg m f b
    match C.kind with
    | .py => if hasB C m then some (.func d) else up
    | .cdef =>
      if m.isIop then (if C.iop then some (.wrap d) else up)
      else if hasB C m && cfg.coexist then some (.meth d)
      else if C.op || C.rop then some (.wrap d)
      else up
    | .int => up

def lookup (w : World) (cfg : OpCfg) (c : Nat) (m : BM) : Option Attr := lookupF w cfg m (fuelOf w) c

/-- nearest class in the base chain that defines `__op__` or `__rop__` (owner of the generated function) -/
def cyProvF (w : World) : Nat → Nat → Option Nat
  | 0, _ => none
  | f + 1, d =>
    let C := clsOf w d
    if C.op || C.rop then some d
    else match C.base with | none => none | some b => cyProvF w f b

/-- `update_one_slot` for a heap type, over the two names of a binary slot -/
def pySlot (a b : Option Attr) : Slot :=
  match a, b with
  | none, none => .none
  | some (.wrap d), none => .cy d
  | none, some (.wrap d) => .cy d
  | some (.wrap d), some (.wrap e) => if Nat.beq d e then .cy d else .S
  | _, _ => .S

def slotOf (w : World) (cfg : OpCfg) (c : Nat) : Slot :=
  match (clsOf w c).kind with
  | .int => .int
  | .cdef => (match cyProvF w (fuelOf w) c with | none => .none | some d => .cy d)
  | .py => pySlot (lookup w cfg c .op) (lookup w cfg c .rop)

/-- `Py_TYPE(x)`'s slot is this function, or `x` is an instance of class `c` -/
def restOf (w : World) (cfg : OpCfg) (c x : Nat) : Bool := (slotOf w cfg x).isCy c || isSub w x c

/-- `maybe_self_is_right` -/
def selfRightOf (v : Variant) (w : World) (cfg : OpCfg) (c l r : Nat) : Bool :=
  if v.sameTypeReflected then Nat.beq l r || restOf w cfg c r else !(Nat.beq l r) && restOf w cfg c r

/-- `<func>_maybe_call_slot(tp_base, left, right)`; `rec d` is the generated function of class `d` -/
def baseSlotOf (w : World) (cfg : OpCfg) (base : Option Nat) (rec : Nat → M) : M :=
  match base with
  | none => pureM .ni
  | some b => (match slotOf w cfg b with | .cy d => rec d | _ => pureM .ni)

def callLeftOf (w : World) (cfg : OpCfg) (c : Nat) (rec : Nat → M) : M :=
  if (clsOf w c).op then user ⟨c, .op, .L⟩ else baseSlotOf w cfg (clsOf w c).base rec

def callRightOf (w : World) (cfg : OpCfg) (c : Nat) (rec : Nat → M) : M :=
  if (clsOf w c).rop then user ⟨c, .rop, .R⟩ else baseSlotOf w cfg (clsOf w c).base rec

/-- the tail of the template: recompute `maybe_self_is_right` if `overloads_left`, then the right call -/
def finishOf (v : Variant) (w : World) (cfg : OpCfg) (c l r : Nat) (rec : Nat → M) (selfR : Bool) (k : Res → Tree) : Tree :=
  if (if (clsOf w c).op then selfRightOf v w cfg c l r else selfR) then callRightOf w cfg c rec k else k .ni

def afterLeft (v : Variant) (w : World) (cfg : OpCfg) (c l r : Nat) (rec : Nat → M) (selfR : Bool) (k : Res → Tree) (res : Res) : Tree :=
  match res with
  | .ni => finishOf v w cfg c l r rec selfR k
  | x => k x

def afterRightFirst (v : Variant) (w : World) (cfg : OpCfg) (c l r : Nat) (rec : Nat → M) (k : Res → Tree) (res : Res) : Tree :=
  match res with
  | .ni => callLeftOf w cfg c rec (afterLeft v w cfg c l r rec false k)
  | x => k x

/-- body of the generated function of class `c` -/
def Fbody (v : Variant) (w : World) (cfg : OpCfg) (c l r : Nat) (rec : Nat → M) : M := fun k =>
  if Nat.beq l r || restOf w cfg c l then
    if (clsOf w c).op then
      callLeftOf w cfg c rec (afterLeft v w cfg c l r rec false k)
    else if (clsOf w c).rop && selfRightOf v w cfg c l r then
      callRightOf w cfg c rec (afterRightFirst v w cfg c l r rec k)
    else
      callLeftOf w cfg c rec (afterLeft v w cfg c l r rec (selfRightOf v w cfg c l r) k)
  else finishOf v w cfg c l r rec (if (clsOf w c).op then false else selfRightOf v w cfg c l r) k

/-- `__pyx_nb_*_<class c>(left, right)`; `fuel` bounds the chain of `tp_base` slot calls -/
def F (v : Variant) (w : World) (cfg : OpCfg) : Nat → Nat → Nat → Nat → M
  | 0, _, _, _ => pureM .ni
  | fuel + 1, c, l, r => Fbody v w cfg c l r (fun d => F v w cfg fuel d l r)

/-- calling what attribute lookup found, for method `m` with `self` on side `s` -/
def callAttr (v : Variant) (w : World) (cfg : OpCfg) (a : Attr) (m : BM) (s : Side) (l r : Nat) : M :=
  match a with
  | .func d => user ⟨d, m.toMeth, s⟩
  | .meth d => user ⟨d, m.toMeth, s⟩
  | .wrap d => if m.isIop then user ⟨d, .iop, s⟩ else F v w cfg (fuelOf w) d l r

def callLookup (v : Variant) (w : World) (cfg : OpCfg) (c : Nat) (m : BM) (s : Side) (l r : Nat) : M :=
  match lookup w cfg c m with
  | none => pureM .ni
  | some a => callAttr v w cfg a m s l r

def Res.isNi : Res → Bool | .ni => true | _ => false

/-- `method_is_overloaded(left, right, name)` given both lookups -/
def overloaded (onLeft : Option Attr) (onRight : Attr) : Bool :=
  match onLeft with
  | none => true
  | some b => !(Attr.beq b onRight)

/-- `slot_nb_*(self = l, other = r)`; `pow3`: a non-None third argument -/
def S (v : Variant) (w : World) (cfg : OpCfg) (pow3 : Bool) (l r : Nat) : M := fun k =>
  if pow3 then
    if (slotOf w cfg l).isS then
      match lookup w cfg l .op with
      | none => k .attrErr
      | some a => callAttr v w cfg a .op .L l r k
    else k .ni
  else
    let same := Nat.beq l r
    let doOther0 : Bool := !same && (slotOf w cfg r).isS
    let tailOther := fun (doOther : Bool) => if doOther then callLookup v w cfg r .rop .R l r k else k .ni
    if (slotOf w cfg l).isS then
      let leftPart := fun (doOther : Bool) =>
        callLookup v w cfg l .op .L l r fun res =>
          if !res.isNi || same then k res else tailOther doOther
      if doOther0 && isSub w r l then
        match lookup w cfg r .rop with
        | none => leftPart doOther0
        | some a =>
          if overloaded (lookup w cfg l .rop) a then
            callAttr v w cfg a .rop .R l r fun res => (match res with | .ni => leftPart false | x => k x)
          else leftPart doOther0
      else leftPart doOther0
    else tailOther doOther0

def callSlot (v : Variant) (w : World) (cfg : OpCfg) (pow3 : Bool) (s : Slot) (l r : Nat) : M :=
  match s with
  | .S => S v w cfg pow3 l r
  | .cy d => F v w cfg (fuelOf w) d l r
  | .int => pureM .ni
  | .none => pureM .ni

/-- `binary_op1` / the slot part of `ternary_op` -/
def binaryOp1 (v : Variant) (w : World) (cfg : OpCfg) (pow3 : Bool) (l r : Nat) : M := fun k =>
  let sv := slotOf w cfg l
  let sw0 : Slot := if Nat.beq l r then .none else (if (slotOf w cfg r).beq sv then .none else slotOf w cfg r)
  let tailW := fun (sw : Slot) => if sw.isNone then k .ni else callSlot v w cfg pow3 sw l r k
  if sv.isNone then tailW sw0
  else
    let vPart := fun (sw : Slot) =>
      callSlot v w cfg pow3 sv l r fun x => (match x with | .ni => tailW sw | y => k y)
    if !sw0.isNone && isSub w r l then
      callSlot v w cfg pow3 sw0 l r fun x => (match x with | .ni => vPart .none | y => k y)
    else vPart sw0

def finishRes : Res → Tree
  | .val c => .done (.val c)
  | .ni => .done .typeError
  | .attrErr => .done .attrError

/-- `l op r` (`pow3`: `pow(l, r, 3)`) -/
def binop (v : Variant) (w : World) (cfg : OpCfg) (pow3 : Bool) (l r : Nat) : Tree :=
  binaryOp1 v w cfg pow3 l r finishRes

/-- `l op= r` (`binary_iop1`, then for `+=` the `sq_inplace_concat` fallback of `PyNumber_InPlaceAdd`) -/
def inplace (v : Variant) (w : World) (cfg : OpCfg) (l r : Nat) : Tree :=
  let rest : Tree :=
    binaryOp1 v w cfg false l r fun x =>
      match x with
      | .ni =>
        (match lookup w cfg l .iop with
         | some (.wrap d) =>
           if cfg.isAdd && (clsOf w l).kind.isPy then
             user ⟨d, .iop, .L⟩ fun y => (match y with | .ni => .done .niLeak | z => finishRes z)
           else .done .typeError
         | _ => .done .typeError)
      | y => finishRes y
  match lookup w cfg l .iop with
  | none => rest
  | some a => callAttr v w cfg a .iop .L l r fun x => (match x with | .ni => rest | y => finishRes y)

/-- the equivalent Python classes -/
def pyCls (C : Cls) : Cls := { C with kind := match C.kind with | .cdef => .py | k => k }
def pyWorld : World → World
  | [] => []
  | C :: rest => pyCls C :: pyWorld rest

end CyVerif.C28

import CyVerif.Model.C31Drv
/-! C31 — canonical printing, input validation and the `handle` entry point. -/
namespace CyVerif.C31

def Lit.show : Lit → String
  | .int n => s!"i{n}"
  | .bool b => if b then "bT" else "bF"
  | .pynone => "N"
  | .str k => s!"s{k}"

mutual
def Val.show : Val → String
  | .lit l => l.show
  | .bytes k => s!"y{k}"
  | .eobj tag n => s!"e{tag}:{n}"
  | .list xs => "L[" ++ showVals xs ++ "]"
  | .tuple xs => "T[" ++ showVals xs ++ "]"
  | .cseq xs => "Q[" ++ showVals xs ++ "]"
  | .dict kvs => "D{" ++ showKVs kvs ++ "}"
  | .lmap kvs => "M{" ++ showKVs kvs ++ "}"
  | .obj c attrs => s!"O{c}" ++ "{" ++ showAttrs attrs ++ "}"
  | .dsub kvs => "DS{" ++ showKVs kvs ++ "}"
  | .dget kvs _ => "DG{" ++ showKVs kvs ++ "}"
  | .useq kind xs => s!"U{kind}[" ++ showVals xs ++ "]"
  | .ostr kind k => s!"z{kind}:{k}"
def showVals : List Val → String
  | [] => ""
  | [x] => x.show
  | x :: rest => x.show ++ "," ++ showVals rest
def showKVs : List (Lit × Val) → String
  | [] => ""
  | [(k, v)] => k.show ++ ":" ++ v.show
  | (k, v) :: rest => k.show ++ ":" ++ v.show ++ "," ++ showKVs rest
def showAttrs : List (Nat × Option Val) → String
  | [] => ""
  | (a, some v) :: rest => s!"a{a}=" ++ v.show ++ ";" ++ showAttrs rest
  | (a, none) :: rest => s!"a{a}=!;" ++ showAttrs rest
end

def Ev.show : Ev → String
  | .eq tag => s!"eq{tag}"
  | .get k => "get" ++ k.show
  | .guard i => s!"g{i}"

def showLog (lg : Log) : String := ";".intercalate (lg.map Ev.show)

/-- final state of the capture names: last store wins, names ascending -/
def showEnv (env : Env) : String :=
  let names := (env.map (·.1)).eraseDups
  let sorted := names.mergeSort (fun a b => a ≤ b)
  ",".intercalate (sorted.map fun n =>
    match (env.reverse.find? (fun p => p.1 == n)) with
    | some (_, v) => s!"v{n}=" ++ v.show
    | none => "")

def Exc.show : Exc → String
  | .typeError => "TypeError" | .valueError => "ValueError" | .crash => "crash"

def Outcome.show : Outcome → String
  | .done sel env lg =>
    let s := match sel with | some i => toString i | none => "-1"
    s!"ok sel={s} env={showEnv env} log={showLog lg}"
  | .exc e lg => s!"err {e.show} log={showLog lg}"

mutual
/-- indices into the class / constant tables are in range; builtin classes take no keywords -/
def Pat.valid (T : Tab) : Pat → Bool
  | .const k => k < T.consts.length
  | .seq ps _ qs => validAll T ps && validAll T qs
  | .map ks ps _ => ks.all (fun k => match k with | .const i => i < T.consts.length | _ => true)
      && ks.length == ps.length && validAll T ps
  | .cls c pos kwn kwp =>
    (match c with
     | .user u => u < T.classes.length
     | .nontype => true
     | _ => kwn.isEmpty)
    && kwn.length == kwp.length && validAll T pos && validAll T kwp
  | .or alts => validAll T alts
  | .as p _ => p.valid T
  | _ => true
def validAll (T : Tab) : List Pat → Bool
  | [] => true
  | p :: ps => p.valid T && validAll T ps
end

def parseAll (toks : List String) : Option (Tab × List Case × Val) := do
  let fuel := toks.length + 1
  let (T, r) ← pTab toks
  let (cs, r) ← pStmt fuel r
  let (v, r) ← pVal fuel r
  if r.isEmpty && cs.all (fun c => c.pat.valid T) then pure (T, cs, v) else none

def parseVariant (s : String) : Option Variant :=
  match s.toList with
  | [a, b, c, d] =>
    if [a, b, c, d].all (fun ch => ch == '0' || ch == '1') then
      some ⟨a == '1', b == '1', c == '1', d == '1'⟩
    else none
  | _ => none

def handle : List String → String
  | "ref" :: toks =>
    (match parseAll toks with
     | some (T, cs, v) => (refStmt T cs 0 v [] []).show
     | none => "bad-op")
  | "cy" :: vb :: toks =>
    (match parseVariant vb, parseAll toks with
     | some V, some (T, cs, v) => (cyStmt V T cs 0 v [] []).show
     | _, _ => "bad-op")
  | _ => "bad-op"

end CyVerif.C31

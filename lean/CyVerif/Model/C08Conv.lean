import CyVerif.Model.Util
/-!
# C08 — conversion Python object → C complex: decision order of `__Pyx_PyComplex_As_<T>`
(`Complex.c`, section `FromPy`, non-Limited-API branch) against CPython 3.12 `PyComplex_AsCComplex`
(`try_complex_special_method`, then `PyFloat_AsDouble`: float → `__float__` → `__index__`).
Objects are described by what the C API observes of them.
-/
namespace CyVerif.C08

/-- what a special method does when called -/
inductive Meth where
  | absent
  | exact        -- returns an instance of exactly the expected type
  | subclass     -- returns an instance of a strict subclass (DeprecationWarning, value used)
  | wrongType    -- returns something else (TypeError)
  | raises       -- raises (modelled as the exception name `Raised`)
  | overflow     -- `__index__` only: an int too large for a double (OverflowError)
  deriving DecidableEq, Repr

structure PyObj where
  exactComplex : Bool          -- `PyComplex_CheckExact`
  complexSub : Bool            -- `PyComplex_Check` and not exact
  mComplex : Meth              -- `type(o).__complex__`
  isFloat : Bool               -- `PyFloat_Check`
  mFloat : Meth                -- `nb_float`
  mIndex : Meth                -- `nb_index`
  deriving DecidableEq, Repr

/-- where the two doubles come from -/
inductive Src where
  | cval | complexMeth | floatVal | floatMeth | indexMeth
  deriving DecidableEq, Repr

def Src.name : Src → String
  | .cval => "cval" | .complexMeth => "complexMeth" | .floatVal => "floatVal"
  | .floatMeth => "floatMeth" | .indexMeth => "indexMeth"

/-- `PyFloat_AsDouble` -/
def pyFloatAsDouble (x : PyObj) : Res Src :=
  if x.isFloat then .ok .floatVal
  else match x.mFloat with
    | .exact | .subclass => .ok .floatMeth
    | .wrongType => .err "TypeError"
    | .raises => .err "Raised"
    | .overflow => .err "OverflowError"
    | .absent =>
      match x.mIndex with
      | .exact | .subclass => .ok .indexMeth
      | .overflow => .err "OverflowError"
      | .wrongType => .err "TypeError"
      | .raises => .err "Raised"
      | .absent => .err "TypeError"

/-- `PyComplex_AsCComplex` -/
def pyAsCComplex (x : PyObj) : Res Src :=
  if x.exactComplex || x.complexSub then .ok .cval
  else match x.mComplex with
    | .exact | .subclass => .ok .complexMeth
    | .wrongType | .overflow => .err "TypeError"
    | .raises => .err "Raised"
    | .absent => pyFloatAsDouble x

/-- `__Pyx_PyComplex_As_<T>` (CPython branch) -/
def cyAsComplex (x : PyObj) : Res Src :=
  if x.exactComplex then .ok .cval else pyAsCComplex x

/-- `__Pyx_SoftComplexToDouble` / `__pyx_Py_FromSoftComplex`: `imagTruthy` is C truth of the imaginary part
(NaN is true) -/
def softToDouble (imagTruthy : Bool) : Res String :=
  if imagTruthy then .err "TypeError" else .ok "real"
def softToPy (imagTruthy : Bool) : String := if imagTruthy then "complex" else "float"

def parseMeth : String → Option Meth
  | "absent" => some .absent | "exact" => some .exact | "subclass" => some .subclass
  | "wrongType" => some .wrongType | "raises" => some .raises | "overflow" => some .overflow
  | _ => none
def parseB : String → Option Bool
  | "1" => some true | "0" => some false | _ => none

def renderSrc : Res Src → String
  | .ok s => s!"ok {s.name}"
  | .err e => s!"err {e}"

def handleConv : List String → String
  | [which, ec, cs, mc, isf, mf, mi] =>
    match parseB ec, parseB cs, parseMeth mc, parseB isf, parseMeth mf, parseMeth mi with
    | some ec, some cs, some mc, some isf, some mf, some mi =>
      let x : PyObj := ⟨ec, cs, mc, isf, mf, mi⟩
      if which == "cy" then renderSrc (cyAsComplex x)
      else if which == "py" then renderSrc (pyAsCComplex x)
      else "bad-op"
    | _, _, _, _, _, _ => "bad-op"
  | ["soft_double", t] => match parseB t with
    | some t => (softToDouble t).render
    | none => "bad-op"
  | ["soft_py", t] => match parseB t with
    | some t => s!"ok {softToPy t}"
    | none => "bad-op"
  | _ => "bad-op"

end CyVerif.C08

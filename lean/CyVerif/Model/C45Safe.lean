import CyVerif.Model.C45
/-!
C45 — decidable side conditions of the theorems.

* `inRange`  : syntactic fact about positions: every statement of a body carries a line of its own function
               (callee bodies are checked against the callee's range).
* `extOK`    : the event words of foreign callees (`ext`: CPython-traced callbacks, generator segments)
               are balanced by themselves.
* `safe`     : the EXCLUDED points, where the real emission deviates from the property:
               (S1) `return` inside a parallel block (no return event at all),
               (S2) `return` inside `try` whose `finally` (or `with` exit) does anything observable:
                    the return event was already emitted at the `return` statement,
               (S3) an exception leaving a cpdef function that was entered through its Python wrapper
                    (both error labels report),
               (S4) the C function of a cpdef method called from C with `skip_dispatch` (`Base.meth(self)`):
                    start skipped, return reported.
               With `cfg.fixRet` (S1, S2) and with `cfg.fixCpdef` (S3, S4) the exclusions disappear.
-/
namespace CyVerif.C45

def lnIn (c : Fn) (ln : Nat) : Bool := decide (c.first ≤ ln ∧ ln ≤ c.last)

def inRange (c : Fn) : Stmt → Bool
  | .skip => true
  | .simple ln | .fail ln _ | .ret ln | .retPar ln | .stopNoExc ln | .brk ln | .cont ln | .yld ln _ | .ext ln _ _ => lnIn c ln
  | .call ln f body => lnIn c ln && inRange f body
  | .seq a b => inRange c a && inRange c b
  | .tryFin ln body fin => lnIn c ln && inRange c body && inRange c fin
  | .tryExc ln body lnExc h => lnIn c ln && inRange c body && lnIn c lnExc && inRange c h
  | .iter body more => inRange c body && inRange c more

def extOK : Stmt → Bool
  | .ext _ w _ => go [] w == some []
  | .call _ _ body => extOK body
  | .seq a b => extOK a && extOK b
  | .tryFin _ body fin => extOK body && extOK fin
  | .tryExc _ body _ h => extOK body && extOK h
  | .iter body more => extOK body && extOK more
  | _ => true

def Out.isExc : Out → Bool
  | .exc _ => true
  | .stop => true
  | _ => false

/-- the statement emits nothing and ends normally -/
def quiet (cfg : Cfg) (c : Fn) (s : Stmt) : Bool :=
  let r := exec cfg c s
  r.1.isEmpty && r.2 == .norm

def safeFn (cfg : Cfg) (f : Fn) (o : Out) : Bool :=
  match f.fk with
  | .cpdefPy => (!o.isExc && !cfg.fixRet) || cfg.fixCpdef   -- (S3)
  | .cskip => cfg.fixCpdef                            -- (S4)
  | _ => true

def safe (cfg : Cfg) (c : Fn) : Stmt → Bool
  | .retPar _ => !traced cfg c || cfg.fixRet                 -- (S1)
  | .call _ f body => safe cfg f body && safeFn cfg f (exec cfg f body).2
  | .seq a b => safe cfg c a && safe cfg c b
  | .tryFin _ body fin =>
    safe cfg c body && safe cfg c fin &&
      ((exec cfg c body).2 != .ret || !traced cfg c || quiet cfg c fin || cfg.fixRet)   -- (S2)
  | .tryExc _ body _ h => safe cfg c body && safe cfg c h
  | .iter body more => safe cfg c body && safe cfg c more
  | _ => true

/-- all side conditions of one call of `c` with body `s` -/
def okFn (cfg : Cfg) (c : Fn) (s : Stmt) : Bool :=
  inRange c s && extOK s && safe cfg c s && safeFn cfg c (exec cfg c s).2

end CyVerif.C45

import CyVerif.Model.Util
import CyVerif.Model.C06Arith
/-!
# C06 (a) — `float(x)` of bytes / bytearray / str in compiled code

Model of `Cython/Utility/Optimize.c`, sections `pybytes_as_double` and
`pyunicode_as_double` (`__Pyx__PyBytes_AsDouble`, `…_Copy`, `…_inf_nan`,
`__Pyx_PyUnicode_AsDouble_WithSpaces`, …) and of CPython 3.12's own route
(`PyFloat_FromString` → `_PyUnicode_TransformDecimalAndSpaceToASCII` →
`_Py_string_to_number_with_underscores` → `float_from_string_inner` →
`PyOS_string_to_double`).

A string is a `List Nat` (bytes `< 256`, code points).  The C code sees it
followed by a NUL; in the model "end of list" plays the role of that NUL, and a
`0` inside the list is an ordinary character that no scanner accepts.

The result of a successful conversion is a `Num`: what `PyOS_string_to_double`
was asked to convert (the consumed characters) or the special value it / the
Cython recogniser produced.  Equal `Num` ⇒ equal double; the rounding done by
`_Py_dg_strtod` is not modelled.
-/
namespace CyVerif.C06

/-! ## characters -/
def cUS : Nat := 95      -- '_'
def cDot : Nat := 46     -- '.'
def cPlus : Nat := 43
def cMinus : Nat := 45
def isDigit (c : Nat) : Bool := 48 ≤ c && c ≤ 57
def isSign (c : Nat) : Bool := c == 43 || c == 45
def isExp (c : Nat) : Bool := c == 101 || c == 69
/-- `Py_ISSPACE` for a C `char` and `__Pyx__PyBytes_AsDouble_IsSpace`:
`(ch == 0x20) | !((ch < 0x9) | (ch > 0xd))`; bytes ≥ 128 are negative `char`s. -/
def isSpaceB (c : Nat) : Bool := c == 32 || (9 ≤ c && c ≤ 13)
/-- `Py_TOLOWER` -/
def lower (c : Nat) : Nat := if 65 ≤ c && c ≤ 90 then c + 32 else c

/-! ## `PyOS_string_to_double` (acceptance only) -/
inductive Num where
  | dec (text : List Nat)      -- decimal text handed to `_Py_dg_strtod` (exactly the consumed characters)
  | inf (neg : Bool)
  | nan (neg : Bool)
  deriving DecidableEq, Repr

def countDigits : List Nat → Nat
  | [] => 0
  | c :: cs => if isDigit c then countDigits cs + 1 else 0

def signLen : List Nat → Nat
  | c :: _ => if isSign c then 1 else 0
  | [] => 0

/-- exponent part consumed at the head of `t` by `_Py_dg_strtod` (0 if malformed: "back up"). -/
def expLen : List Nat → Nat
  | c :: t =>
    if isExp c then
      let sg := signLen t
      let n := countDigits (t.drop sg)
      if n = 0 then 0 else 1 + sg + n
    else 0
  | [] => 0

/-- fraction part: `.` and the digits after it -/
def fracLen : List Nat → Option Nat
  | c :: t => if c = cDot then some (countDigits t) else none
  | [] => none

/-- Number of characters `_Py_dg_strtod` consumes (0 = "no conversion"):
`[+-]? (D+ (. D*)? | . D+) ([eE] [+-]? D+)?`, longest prefix. -/
def decLen (t : List Nat) : Nat :=
  let sg := signLen t
  let t1 := t.drop sg
  let n1 := countDigits t1
  let t2 := t1.drop n1
  let fr := fracLen t2
  let n2 := fr.getD 0
  if n1 + n2 = 0 then 0 else
  let m := n1 + (match fr with | some k => 1 + k | none => 0)
  sg + m + expLen (t1.drop m)

/-- `case_insensitive_match(s, t)`: `t` lower-case. -/
def ciMatch : List Nat → List Nat → Bool
  | _, [] => true
  | [], _ :: _ => false
  | c :: cs, d :: ds => lower c == d && ciMatch cs ds

def sINF : List Nat := [105, 110, 102]
def sINITY : List Nat := [105, 110, 105, 116, 121]
def sNAN : List Nat := [110, 97, 110]

/-- `_Py_parse_inf_or_nan` -/
def parseInfNan (t : List Nat) : Option (Nat × Num) :=
  let sg := signLen t
  let neg := t.head? == some cMinus
  let s := t.drop sg
  if ciMatch s sINF then
    if ciMatch (s.drop 3) sINITY then some (sg + 8, .inf neg) else some (sg + 3, .inf neg)
  else if ciMatch s sNAN then some (sg + 3, .nan neg)
  else none

/-- `PyOS_string_to_double(t, &end, NULL)`: `none` = ValueError set, result −1.0;
`some (n, v)`: `end = t + n`, value described by `v`. -/
def strtod (t : List Nat) : Option (Nat × Num) :=
  let n := decLen t
  if n = 0 then parseInfNan t else some (n, .dec (t.take n))

/-! ## CPython's route -/

/-- right-trim: drop the trailing characters satisfying `p` -/
def trimR (p : Nat → Bool) : List Nat → List Nat
  | [] => []
  | c :: cs =>
    match trimR p cs with
    | [] => if p c then [] else [c]
    | t => c :: t

/-- the C loop `while (start < last - 1 && isspace(last[-1])) last--`: never drops the first character -/
def region (p : Nat → Bool) : List Nat → List Nat
  | [] => []
  | c :: cs => c :: trimR p cs

/-- `x = PyOS_string_to_double(s, &end, NULL); if (end != last) ValueError; else if (x == -1.0 && PyErr_Occurred()) error`
with `last = s + want` -/
def innerCheck (text : List Nat) (want : Nat) : Res Num :=
  match strtod text with
  | none => .err "ValueError"
  | some (n, v) => if n = want then .ok v else .err "ValueError"

/-- `float_from_string_inner(s, len)` on the C string `t` -/
def pyInner (t : List Nat) : Res Num :=
  let a := t.dropWhile isSpaceB
  if a = [] then .err "ValueError" else innerCheck a (region isSpaceB a).length

/-- the underscore loop of `_Py_string_to_number_with_underscores` (`prev` starts as NUL) -/
def pyUS : Nat → List Nat → Bool
  | prev, [] => prev != cUS
  | prev, c :: cs =>
    (if c == cUS then isDigit prev else !(prev == cUS && !isDigit c)) && pyUS c cs

def stripUS (s : List Nat) : List Nat := s.filter (· != cUS)

/-- `float(b)` for bytes / bytearray `b` (and `float(s)` for an ASCII str) in CPython -/
def pyBytes (s : List Nat) : Res Num :=
  if !(s.takeWhile (· != 0)).contains cUS then pyInner s     -- strchr(s, '_') == NULL
  else if pyUS 0 s then pyInner (stripUS s)
  else .err "ValueError"

/-- run-time tables of the interpreter: non-ASCII `Py_UNICODE_ISSPACE` code points and the code points of
the decimal digit zeros (`Py_UNICODE_TODECIMAL(z + d) = d`, `d < 10`) -/
structure UTab where
  uspace : List Nat
  zeros : List Nat
  deriving Repr

/-- the tables only describe non-ASCII code points -/
def UTab.WF (T : UTab) : Prop := (∀ c ∈ T.uspace, 128 ≤ c) ∧ (∀ z ∈ T.zeros, 128 ≤ z)

instance (T : UTab) : Decidable T.WF := by unfold UTab.WF; infer_instance

def UTab.decimal (T : UTab) (c : Nat) : Option Nat :=
  match T.zeros.find? (fun z => z ≤ c && c < z + 10) with
  | some z => some (c - z)
  | none => none

/-- `_PyUnicode_TransformDecimalAndSpaceToASCII` on a non-ASCII string -/
def transform (T : UTab) : List Nat → List Nat
  | [] => []
  | c :: cs =>
    if c < 127 then c :: transform T cs
    else if T.uspace.contains c then 32 :: transform T cs
    else match T.decimal c with
      | some d => (48 + d) :: transform T cs
      | none => [63]

def isAscii (s : List Nat) : Bool := s.all (· < 128)

/-- `float(s)` for a str `s` in CPython -/
def pyStr (T : UTab) (s : List Nat) : Res Num :=
  if isAscii s then pyBytes s else pyBytes (transform T s)

/-! ## Cython's fast paths -/

/-- rule applied by the `_Copy` loops to the characters around `_`:
`punct S` — the automaton of the pinned tree (`S` = "punctuation" characters, no two adjacent, none first/last);
`digits` — `_` only between two ASCII digits (CPython's rule). -/
inductive CopyRule where
  | punct (S : List Nat)
  | digits
  deriving DecidableEq, Repr

structure Params where
  ruleB : CopyRule            -- __Pyx__PyBytes_AsDouble_Copy
  ruleU : CopyRule            -- __Pyx__PyUnicode_AsDouble_Copy
  uniInclusive : Bool         -- unicode copy loop `i <= end` (reads one character past the region)
  uniAsciiSpace : List Nat    -- ASCII characters trimmed by __Pyx_PyUnicode_AsDouble_WithSpaces
  thrB : Nat                  -- `digits < 40`
  arrB : Nat                  -- `char number[40]`
  extraB : Nat                -- `PyMem_Malloc(digits + 1)`
  thrU : Nat                  -- `length < 40`
  arrU : Nat
  extraU : Nat                -- `PyMem_Malloc(length + 1)`
  deriving Repr

inductive CyOut where
  | fast (v : Num)      -- value returned by the C fast path
  | fallback            -- `__Pyx_SlowPyString_AsDouble` = `PyFloat_FromString` (CPython decides)
  | valueError          -- `PyOS_string_to_double` failed at the first character: its ValueError propagates
  deriving DecidableEq, Repr

def punctScan (S : List Nat) : Bool → List Nat → Bool
  | last, [] => !last
  | last, c :: cs => !(last && S.contains c) && punctScan S (S.contains c) cs

def digitScan : Bool → Bool → List Nat → Bool
  | _, lastUS, [] => !lastUS
  | lastDigit, lastUS, c :: cs =>
    !(c == cUS && !lastDigit) && !(lastUS && !isDigit c) && digitScan (isDigit c) (c == cUS) cs

def ruleOK : CopyRule → List Nat → Bool
  | .punct S, r => punctScan S true r
  | .digits, r => digitScan false false r

inductive Gate where
  | special (v : Num) | fail | numeric
  deriving DecidableEq, Repr

/-- `__Pyx__PyBytes_AsDouble_inf_nan` / `__Pyx__PyUnicode_AsDouble_inf_nan` on the region `r`;
`tl` = the characters after the region (first one is read when the region is only a sign). -/
def gate (r tl : List Nat) : Gate :=
  let sg := signLen r
  let neg := r.head? == some cMinus
  let s := r.drop sg
  let len := s.length
  match s ++ tl with
  | [] => .fail                                   -- start[0] is the terminating NUL
  | c :: _ =>
    if c == 110 || c == 78 then
      if len != 3 then .fail
      else if ciMatch s sNAN then .special (.nan neg) else .fail
    else if c == 105 || c == 73 then
      if len < 3 then .fail
      else if len == 3 && ciMatch s sINF then .special (.inf neg)
      else if len != 8 then .fail
      else if ciMatch s (sINF ++ sINITY) then .special (.inf neg) else .fail
    else if c == cDot || isDigit c then .numeric
    else .fail

/-- outcome after `PyOS_string_to_double(number, &end, NULL)`; `want` = `last - number`:
`valid_parse` → value; `value == -1 && PyErr_Occurred()` → its ValueError; else fallback -/
def afterStrtod (text : List Nat) (want : Nat) : CyOut :=
  match strtod text with
  | none => .valueError
  | some (n, v) => if n = want then .fast v else .fallback

/-- `__Pyx__PyBytes_AsDouble(obj, start, length)`: bytes, bytearray and ASCII str -/
def cyBytes (P : Params) (s : List Nat) : CyOut :=
  let a := s.dropWhile isSpaceB
  if a = [] then .fallback else                     -- length <= 0
  let r := region isSpaceB a
  let tl := a.drop r.length
  match gate r tl with
  | .special v => .fast v
  | .fail => .fallback
  | .numeric =>
    if !r.contains cUS then afterStrtod a r.length   -- digits == length: parse in place
    else if ruleOK P.ruleB r then afterStrtod (stripUS r) (stripUS r).length
    else .fallback

/-- the space test of `__Pyx_PyUnicode_AsDouble_WithSpaces` -/
def isSpaceU (P : Params) (T : UTab) (c : Nat) : Bool :=
  if c < 128 then P.uniAsciiSpace.contains c else T.uspace.contains c

/-- characters visited by the unicode copy loop -/
def uniVisited (P : Params) (r tl : List Nat) : List Nat :=
  if P.uniInclusive then r ++ [(tl ++ [0]).headD 0] else r

/-- `__Pyx__PyUnicode_AsDouble_Copy` acceptance: every visited character ≤ 127 and the rule holds.
(The early `goto parse_failure` only matters for the write count, see `uCopyWritten`.) -/
def uCopyOK (rule : CopyRule) (xs : List Nat) : Bool :=
  xs.all (· ≤ 127) && ruleOK rule xs

/-- `__Pyx_PyUnicode_AsDouble_WithSpaces(obj)`: non-ASCII str -/
def cyUni (P : Params) (T : UTab) (s : List Nat) : CyOut :=
  let a := s.dropWhile (isSpaceU P T)
  if a = [] then .fallback else
  let r := region (isSpaceU P T) a
  let tl := a.drop r.length
  match gate r tl with
  | .special v => .fast v
  | .fail => .fallback
  | .numeric =>
    let xs := uniVisited P r tl
    if uCopyOK P.ruleU xs then afterStrtod (stripUS xs) (stripUS xs).length
    else .fallback

/-- `__Pyx_PyUnicode_AsDouble(obj)` -/
def cyStr (P : Params) (T : UTab) (s : List Nat) : CyOut :=
  if isAscii s then cyBytes P s else cyUni P T s

/-- what `float(x)` evaluates to in the compiled module, given what CPython does for the same `x` -/
def resolve (c : CyOut) (py : Res Num) : Res Num :=
  match c with
  | .fast v => .ok v
  | .fallback => py
  | .valueError => .err "ValueError"

def cyFloatBytes (P : Params) (s : List Nat) : Res Num := resolve (cyBytes P s) (pyBytes s)
def cyFloatStr (P : Params) (T : UTab) (s : List Nat) : Res Num := resolve (cyStr P T s) (pyStr T s)

/-! ## buffer use of the copy loops (1 + highest index written; the capacity the caller provides) -/

/-- bytes copy: every character is stored (`_` without advancing), then the NUL -/
def bCopyWritten (r : List Nat) : Nat := (stripUS r).length + 1

def bCap (P : Params) (r : List Nat) : Nat :=
  let digits := (stripUS r).length
  if digits < P.thrB then P.arrB else digits + P.extraB

/-- unicode copy, with its early exits: `pos` = buffer offset, `hi` = 1 + highest offset written so far -/
def uCopyGo (rule : CopyRule) : (lastP lastD : Bool) → (pos hi : Nat) → List Nat → Nat
  | lastP, _, pos, hi, [] =>
    match rule with
    | .punct _ => if lastP then hi else pos + 1
    | .digits => if lastP then hi else pos + 1          -- lastP = "last was '_'" under the digit rule
  | lastP, lastD, pos, _, c :: cs =>
    let hi' := pos + 1
    let pos' := if c == cUS then pos else pos + 1
    if c > 127 then hi' else
    match rule with
    | .punct S =>
      if lastP && S.contains c then hi' else uCopyGo rule (S.contains c) false pos' hi' cs
    | .digits =>
      if (c == cUS && !lastD) || (lastP && !isDigit c) then hi'
      else uCopyGo rule (c == cUS) (isDigit c) pos' hi' cs

def uCopyWritten (rule : CopyRule) (xs : List Nat) : Nat :=
  match rule with
  | .punct _ => uCopyGo rule true false 0 0 xs
  | .digits => uCopyGo rule false false 0 0 xs

def uCap (P : Params) (r : List Nat) : Nat :=
  if r.length < P.thrU then P.arrU else r.length + P.extraU

/-- parameters for which every statement of `Props/C06.lean` holds at full strength -/
def Params.WF (P : Params) : Prop :=
  P.ruleB = .digits ∧ P.ruleU = .digits ∧ P.uniInclusive = false ∧
  P.uniAsciiSpace = [9, 10, 11, 12, 13, 32] ∧
  P.thrB ≤ P.arrB ∧ 1 ≤ P.extraB ∧ P.thrU ≤ P.arrU ∧ 1 ≤ P.extraU

instance (P : Params) : Decidable P.WF := by unfold Params.WF; infer_instance

/-- the pinned tree -/
def pinned : Params :=
  { ruleB := .punct [95, 46, 101, 69], ruleU := .punct [95, 46], uniInclusive := true,
    uniAsciiSpace := [9, 10, 11, 12, 13, 28, 29, 30, 31, 32],
    thrB := 40, arrB := 40, extraB := 1, thrU := 40, arrU := 40, extraU := 1 }

/-- the repaired code -/
def repaired : Params :=
  { pinned with ruleB := .digits, ruleU := .digits, uniInclusive := false,
                uniAsciiSpace := [9, 10, 11, 12, 13, 32] }

/-! ## line protocol -/

def parseDotted (s : String) : Option (List Nat) :=
  if s == "-" then some [] else (s.splitOn ".").mapM parseNat?

def dotted (xs : List Nat) : String :=
  if xs.isEmpty then "-" else ".".intercalate (xs.map toString)

def Num.render : Num → String
  | .dec t => "dec:" ++ dotted t
  | .inf n => if n then "inf:-" else "inf:+"
  | .nan n => if n then "nan:-" else "nan:+"

def CyOut.render : CyOut → String
  | .fast v => "fast " ++ v.render
  | .fallback => "fallback"
  | .valueError => "valueError"

def renderNumRes : Res Num → String
  | .ok v => "ok " ++ v.render
  | .err e => "err " ++ e

def parseRule (s : String) : Option CopyRule :=
  if s == "D" then some .digits
  else if s.startsWith "P" then (parseDotted (s.drop 1).toString).map .punct
  else none

/-- `ruleB/ruleU/incl/asciiSpace/thrB.arrB.extraB.thrU.arrU.extraU` -/
def parseParams (s : String) : Option Params :=
  match s.splitOn "/" with
  | [rb, ru, incl, sp, nums] =>
    match parseRule rb, parseRule ru, parseDotted sp, parseDotted nums with
    | some rb, some ru, some sp, some [a, b, c, d, e, f] =>
      if incl == "1" then some ⟨rb, ru, true, sp, a, b, c, d, e, f⟩
      else if incl == "0" then some ⟨rb, ru, false, sp, a, b, c, d, e, f⟩
      else none
    | _, _, _, _ => none
  | _ => none

/-- `uspace;zeros` -/
def parseUTab (s : String) : Option UTab :=
  match s.splitOn ";" with
  | [a, b] =>
    match parseDotted a, parseDotted b with
    | some a, some b => some ⟨a, b⟩
    | _, _ => none
  | _ => none

def bit (b : Bool) : String := if b then "1" else "0"

def handle : List String → String
  | ["cyb", p, s] =>
    match parseParams p, parseDotted s with
    | some P, some s => (cyBytes P s).render
    | _, _ => "bad-op"
  | ["pyb", s] =>
    match parseDotted s with
    | some s => renderNumRes (pyBytes s)
    | _ => "bad-op"
  | ["floatb", p, s] =>
    match parseParams p, parseDotted s with
    | some P, some s => renderNumRes (cyFloatBytes P s)
    | _, _ => "bad-op"
  | ["cys", p, t, s] =>
    match parseParams p, parseUTab t, parseDotted s with
    | some P, some T, some s => (cyStr P T s).render
    | _, _, _ => "bad-op"
  | ["pys", t, s] =>
    match parseUTab t, parseDotted s with
    | some T, some s => renderNumRes (pyStr T s)
    | _, _ => "bad-op"
  | ["floats", p, t, s] =>
    match parseParams p, parseUTab t, parseDotted s with
    | some P, some T, some s => renderNumRes (cyFloatStr P T s)
    | _, _, _ => "bad-op"
  | ["transform", t, s] =>
    match parseUTab t, parseDotted s with
    | some T, some s => "ok " ++ dotted (transform T s)
    | _, _ => "bad-op"
  | ["strtod", s] =>
    match parseDotted s with
    | some s => (match strtod s with
      | none => "none"
      | some (n, v) => s!"{n} " ++ v.render)
    | _ => "bad-op"
  -- the bytes copy loop applied to a region: accepted? buffer text, bytes written, capacity provided
  | ["bcopy", p, s] =>
    match parseParams p, parseDotted s with
    | some P, some r =>
      s!"ok {bit (ruleOK P.ruleB r)} {dotted (stripUS r)} {bCopyWritten r} {bCap P r}"
    | _, _ => "bad-op"
  -- the unicode copy loop applied to the visited characters `xs` of a region of length `rlen`
  | ["ucopy", p, xs, rlen] =>
    match parseParams p, parseDotted xs, parseNat? rlen with
    | some P, some xs, some rlen =>
      s!"ok {bit (uCopyOK P.ruleU xs)} {uCopyWritten P.ruleU xs} {uCap P (List.replicate rlen 48)}"
    | _, _, _ => "bad-op"
  | "arith" :: rest =>
    match handleArith rest with
    | some r => r
    | none => "bad-op"
  | _ => "bad-op"

end CyVerif.C06

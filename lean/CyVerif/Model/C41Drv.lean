import CyVerif.Model.C41
import CyVerif.Model.C41Scope
/-!
Line-protocol glue for the C41 models (decoding of the harness's tokens, rendering of results) and the
concrete CPython character tables (Unicode 15.0: `str.isspace`, decimal digits) used by the driver.
Nothing here is used by a theorem; the tables are compared with CPython for every code point by the harness.
-/
namespace CyVerif.C41

def pySpaces : List Nat :=
  [0x9, 0xa, 0xb, 0xc, 0xd, 0x1c, 0x1d, 0x1e, 0x1f, 0x20, 0x85, 0xa0, 0x1680, 0x2000, 0x2001, 0x2002, 0x2003,
   0x2004, 0x2005, 0x2006, 0x2007, 0x2008, 0x2009, 0x200a, 0x2028, 0x2029, 0x202f, 0x205f, 0x3000]

/-- code points of the digit ZERO of every Unicode decimal-digit run (each run is 10 consecutive code points) -/
def pyZeros : List Nat :=
  [48, 1632, 1776, 1984, 2406, 2534, 2662, 2790, 2918, 3046, 3174, 3302, 3430, 3558, 3664, 3792, 3872, 4160, 4240,
   6112, 6160, 6470, 6608, 6784, 6800, 6992, 7088, 7232, 7248, 42528, 43216, 43264, 43472, 43504, 43600, 44016,
   65296, 66720, 68912, 69734, 69872, 69942, 70096, 70384, 70736, 70864, 71248, 71360, 71472, 71904, 72016, 72784,
   73040, 73120, 73552, 92768, 92864, 93008, 120782, 120792, 120802, 120812, 120822, 123200, 123632, 124144,
   125264, 130032]

def pyTab : CharTab :=
  ⟨fun c => pySpaces.contains c.toNat,
   fun c => (pyZeros.find? (fun z => z ≤ c.toNat && c.toNat < z + 10)).map (fun z => c.toNat - z)⟩

/-! ### token coding: a string is `-` (empty) or dot-separated hex code points -/

def hexOf (n : Nat) : String := String.ofList (Nat.toDigits 16 n)

def encode (s : Str) : String :=
  if s.isEmpty then "-" else ".".intercalate (s.map fun c => hexOf c.toNat)

def parseHexNat (s : String) : Option Nat :=
  if s.isEmpty then none else
  s.toList.foldl (fun acc c => match acc, hexVal c with
    | some a, some d => some (a * 16 + d)
    | _, _ => none) (some 0)

def decode (s : String) : Option Str :=
  if s == "-" then some [] else
  (s.splitOn ".").foldr (fun t acc => match parseHexNat t, acc with
    | some n, some l => if h : n.isValidChar then some (Char.ofNatAux n h :: l) else none
    | _, _ => none) (some [])

def optAll {α} : List (Option α) → Option (List α)
  | [] => some []
  | none :: _ => none
  | some a :: r => (optAll r).map (a :: ·)

/-- kind token: b i s n(encoding) l N(noneType) D(defer) T d A(absent) or `e|alt|alt|~key>val|…` (raw ASCII) -/
def decodeKind (t : String) : Option Kind :=
  match t with
  | "b" => some .bool | "i" => some .int | "s" => some .str | "n" => some .encoding | "l" => some .list
  | "N" => some .noneType | "D" => some .defer | "T" => some .typeT | "d" => some .dict | "A" => some .absent
  | _ =>
    match t.splitOn "|" with
    | "e" :: parts =>
      let alts := parts.filter (fun p => !p.startsWith "~")
      let maps := parts.filter (fun p => p.startsWith "~")
      let mp := maps.map fun p => match (p.drop 1).toString.splitOn ">" with
        | [k, v] => some (k.toList, v.toList)
        | _ => none
      (optAll mp).map fun m => .enum (alts.map String.toList) m
    | _ => none

/-- `name:kind,name:kind,…` (raw ASCII names) -/
def decodeTypes (t : String) : Option (List (Str × Kind)) :=
  if t == "-" then some [] else
  optAll ((t.splitOn ",").map fun e => match e.splitOn ":" with
    | [n, k] => (decodeKind k).map fun kd => (n.toList, kd)
    | _ => none)

def decodeNames (t : String) : List Str := if t == "-" then [] else (t.splitOn ",").map String.toList

def renderVal : DVal → String
  | .bool b => if b then "b1" else "b0"
  | .int i => s!"i{i}"
  | .str s => "s" ++ encode s
  | .none => "N"
  | .list l => "l" ++ "|".intercalate (l.map encode)

def decodeVal (t : String) : Option DVal :=
  match t.toList with
  | ['b', '1'] => some (.bool true)
  | ['b', '0'] => some (.bool false)
  | ['N'] => some .none
  | 'i' :: r => (String.ofList r).toInt?.map .int
  | 's' :: r => (decode (String.ofList r)).map .str
  | ['l'] => some (.list [])
  | 'l' :: r => (optAll (((String.ofList r).splitOn "|").map decode)).map .list
  | _ => none

/-- `name=val,name=val` (raw ASCII names) -/
def decodeSettings (t : String) : Option Settings :=
  if t == "-" then some [] else
  optAll ((t.splitOn ",").map fun e => match e.splitOn "=" with
    | [n, v] => (decodeVal v).map fun d => (n.toList, d)
    | _ => none)

def renderSettings (st : Settings) : String :=
  if st.isEmpty then "-" else ",".intercalate (st.map fun (n, d) => String.ofList n ++ "=" ++ renderVal d)

/-- normaliser given as finite data: `in>out;in>!;…` (`!` = ValueError); a value not listed is an error of
the harness and shows as `bad-norm` -/
def decodeNorm (t : String) : Option (List (Str × Option Str)) :=
  if t == "-" then some [] else
  optAll ((t.splitOn ";").map fun e => match e.splitOn ">" with
    | [a, b] => match decode a with
      | some x => if b == "!" then some (x, none) else (decode b).map fun y => (x, some y)
      | none => none
    | _ => none)

def mkCfg (fixed : Bool) (maxd : Nat) (T : Table) (nm : List (Str × Option Str)) : Cfg :=
  ⟨pyTab, T, fun s => match lkS s nm with | some r => r | none => some ("bad-norm".toList), maxd, fixed⟩

def renderRes : Res DVal → String
  | .ok d => "ok " ++ renderVal d
  | .err e => "err " ++ e

def bit (s : String) : Bool := s == "1"

/-! ### scoping: values are opaque tokens; a list value is `L` followed by `+elem` per element -/

def mergeTok (o v : String) : String := o ++ (v.drop 1).toString

/-- `idx:legal:imm:noninh:merge,…`; legal = `-` (no entry) or a subset of the letters m f p c w (`0` = empty tuple) -/
structure SEntry where
  idx : Nat
  legal : Option (List ScopeK)
  imm : Bool
  noninh : Bool
  mrg : Bool

def decodeScopes (t : String) : Option (List ScopeK) :=
  if t == "-" then none else
  some (t.toList.filterMap fun c => match c with
    | 'm' => some .module | 'f' => some .function | 'p' => some .pyclass | 'c' => some .cclass
    | 'w' => some .withStmt | _ => none)

def decodeSTable (t : String) : Option STable :=
  let es := if t == "-" then some [] else optAll ((t.splitOn ",").map fun e => match e.splitOn ":" with
    | [i, l, a, b, c] => i.toNat?.map fun n => (⟨n, decodeScopes l, bit a, bit b, bit c⟩ : SEntry)
    | _ => none)
  es.map fun es =>
    let find (n : Nat) : Option SEntry := es.find? (·.idx = n)
    ⟨fun n => (find n).bind (·.legal), fun n => ((find n).map (·.imm)).getD false,
     fun n => ((find n).map (·.noninh)).getD false, fun n => ((find n).map (·.mrg)).getD false⟩

/-- `idx=tok,idx=tok` -/
def decodeEnvList (t : String) : Option (List (Nat × String)) :=
  if t == "-" then some [] else
  optAll ((t.splitOn ",").map fun e => match e.splitOn "=" with
    | [i, v] => i.toNat?.map fun n => (n, v)
    | _ => none)

def envOf (l : List (Nat × String)) : Env String := fun n => lk n l

def decodeArg (t : String) : Arg String := if t == "~" then none else some t

/-- program tokens: `m<id>` | `w<idx>=<arg>` … `e` | `d<k><id>@<idx>=<arg>@…` … `e`  (k ∈ f p c) -/
def parseProg : Nat → List String → Option (Prog String × List String)
  | 0, _ => none
  | _ + 1, [] => some (.done, [])
  | fuel + 1, t :: ts =>
    if t == "e" then some (.done, ts)
    else match t.toList with
      | 'm' :: r =>
        match (String.ofList r).toNat?, parseProg fuel ts with
        | some id, some (rest, ts') => some (.mark id rest, ts')
        | _, _ => none
      | 'w' :: r =>
        match (String.ofList r).splitOn "=" with
        | [i, a] =>
          match i.toNat?, parseProg fuel ts with
          | some n, some (body, ts1) =>
            match parseProg fuel ts1 with
            | some (rest, ts2) => some (.withB n (decodeArg a) body rest, ts2)
            | none => none
          | _, _ => none
        | _ => none
      | 'd' :: k :: r =>
        let kind : Option ScopeK := match k with
          | 'f' => some .function | 'p' => some .pyclass | 'c' => some .cclass | _ => none
        match (String.ofList r).splitOn "@" with
        | idt :: decs =>
          let ds := optAll (decs.map fun d => match d.splitOn "=" with
            | [i, a] => i.toNat?.map fun n => (n, decodeArg a)
            | _ => none)
          match kind, idt.toNat?, ds, parseProg fuel ts with
          | some kd, some id, some ds, some (body, ts1) =>
            match parseProg fuel ts1 with
            | some (rest, ts2) => some (.defB kd id ds body rest, ts2)
            | none => none
          | _, _, _, _ => none
        | [] => none
      | _ => none

def renderObs (watch : List Nat) (obs : List (Nat × Env String)) : String :=
  "|".intercalate (obs.map fun (id, e) =>
    s!"{id}:" ++ ";".intercalate (watch.map fun n => s!"{n}=" ++ (match e n with | some v => v | none => "?")))

def handle : List String → String
  | ["int", maxd, s] =>
    match maxd.toNat?, decode s with
    | some m, some str => match parseInt pyTab m str with
      | some i => s!"ok {i}"
      | none => "err ValueError"
    | _, _ => "bad-op"
  | ["pv", fixed, relaxed, maxd, types, name, value, nm] =>
    match maxd.toNat?, decodeTypes types, decode name, decode value, decodeNorm nm with
    | some m, some ty, some n, some v, some nmap =>
      renderRes (parseValue (mkCfg (bit fixed) m ⟨ty, []⟩ nmap) (bit relaxed) n v)
    | _, _, _, _, _ => "bad-op"
  | ["pl", fixed, relaxed, iu, maxd, defaults, types, s, cur, nm] =>
    match maxd.toNat?, decodeTypes types, decode s, decodeSettings cur, decodeNorm nm with
    | some m, some ty, some str, some c, some nmap =>
      match parseList (mkCfg (bit fixed) m ⟨ty, decodeNames defaults⟩ nmap) (bit relaxed) (bit iu) str c with
      | .ok r => "ok " ++ renderSettings r
      | .err e => "err " ++ e
    | _, _, _, _, _ => "bad-op"
  | "hdr" :: fixed :: maxd :: defaults :: types :: nm :: lines =>
    match maxd.toNat?, decodeTypes types, decodeNorm nm, optAll (lines.map decode) with
    | some m, some ty, some nmap, some ls =>
      match headerLines (mkCfg (bit fixed) m ⟨ty, decodeNames defaults⟩ nmap) [] false ls with
      | .ok r => "ok " ++ renderSettings r
      | .err e => "err " ++ e
    | _, _, _, _ => "bad-op"
  | ["cls", lo, hi] =>
    match lo.toNat?, hi.toNat? with
    | some a, some b =>
      let cps := (List.range (b - a)).map (· + a)
      let sp := cps.filter fun n => if h : n.isValidChar then pyTab.isSpace (Char.ofNatAux n h) else false
      let dg := cps.filterMap fun n => if h : n.isValidChar then
        (pyTab.decimal (Char.ofNatAux n h)).map fun d => s!"{n}={d}" else none
      "ok " ++ ",".intercalate (sp.map toString) ++ " " ++ ",".intercalate dg
    | _, _ => "bad-op"
  | "scope" :: table :: dflt :: defaults :: options :: header :: watch :: prog =>
    match decodeSTable table, decodeEnvList dflt, decodeEnvList defaults, decodeEnvList options,
        decodeEnvList header, decodeEnvList (if watch == "-" then "-" else ",".intercalate ((watch.splitOn ",").map (· ++ "=x"))) with
    | some T, some df, some d, some o, some h, some w =>
      match parseProg (prog.length + 1) prog with
      | some (p, []) =>
        match compile T mergeTok (fun n => ((lk n df).getD "?")) (envOf d) (envOf o) (envOf h) (h.map (·.1)) p with
        | .ok obs => "ok " ++ renderObs (w.map (·.1)) obs
        | .err e => "err " ++ e
      | _ => "bad-op"
    | _, _, _, _, _, _ => "bad-op"
  | _ => "bad-op"

end CyVerif.C41

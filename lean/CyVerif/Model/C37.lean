import CyVerif.Model.Util
/-!
C37, leg 1 — result of a `prange` loop under OpenMP data-sharing clauses, as emitted by
`Cython/Compiler/Nodes.py: ParallelRangeNode.generate_loop`:

* in-place operator on a C integer  → `reduction(op:var)`: every thread gets a private copy
  initialised to the identity of `op`, applies the body's `var op= g(k)` to it, and the partial
  results are combined into the original variable in an unspecified order (the combiner of `-` is `+`);
* plain assignment → `firstprivate(var) lastprivate(var)`: private copy initialised to the original
  value; after the loop the original receives the private copy of the thread that executed the
  sequentially last iteration; the index variable `i = start + step*k` is always such a variable;
* writes `a[idx k] = val k` go to shared memory.

A *schedule* is the list of events `(thread, k)` in the global order in which the iterations are
executed: it fixes at the same time the assignment of iterations to threads (static / dynamic /
guided, any chunk size) and the interleaving.  `merge` is the order in which the partial results
are combined.  Integers are `BitVec w` (wrapping), `w` arbitrary.
-/
namespace CyVerif.C37

inductive Op where
  | add | mul | sub | band | bor | bxor
  deriving DecidableEq, Repr

/-- OpenMP initialiser of the private copy. -/
def Op.ident (w : Nat) : Op → BitVec w
  | .add => 0 | .sub => 0 | .bor => 0 | .bxor => 0
  | .mul => 1
  | .band => BitVec.allOnes w

/-- OpenMP combiner (for `-` it is `+`). -/
def Op.comb {w : Nat} : Op → BitVec w → BitVec w → BitVec w
  | .add, a, b => a + b
  | .sub, a, b => a + b
  | .mul, a, b => a * b
  | .band, a, b => a &&& b
  | .bor, a, b => a ||| b
  | .bxor, a, b => a ^^^ b

/-- The statement `x op= v` of the loop body. -/
def Op.apply {w : Nat} : Op → BitVec w → BitVec w → BitVec w
  | .add, a, b => a + b
  | .sub, a, b => a - b
  | .mul, a, b => a * b
  | .band, a, b => a &&& b
  | .bor, a, b => a ||| b
  | .bxor, a, b => a ^^^ b

/-- What one iteration does, as a function of the iteration number `k` (0-based step count). -/
structure Body (w : Nat) where
  op : Op
  g : Nat → BitVec w            -- `red op= g k`
  asg : Nat → Option Int        -- `lp = v` if `some v`, no assignment if `none`
  start : Int
  step : Int
  aidx : Nat → Nat              -- `a[aidx k] = aval k`
  aval : Nat → Int

/-- The variables visible after the loop. -/
structure Vars (w : Nat) where
  red : BitVec w
  lp : Int
  idx : Int
  arr : List Int
  deriving DecidableEq

def Body.index {w} (b : Body w) (k : Nat) : Int := b.start + b.step * k

/-- One iteration of the sequential loop. -/
def seqStep {w} (b : Body w) (s : Vars w) (k : Nat) : Vars w :=
  { red := b.op.apply s.red (b.g k),
    lp := (b.asg k).getD s.lp,
    idx := b.index k,
    arr := s.arr.set (b.aidx k) (b.aval k) }

/-- The sequential loop over `k = 0 .. N-1` (for `N = 0` nothing changes). -/
def seqRun {w} (b : Body w) (s : Vars w) (N : Nat) : Vars w :=
  (List.range N).foldl (seqStep b) s

/-- State of the parallel region. -/
structure PSt (w : Nat) where
  pred : Nat → BitVec w          -- private reduction copies, per thread
  plp : Nat → Int                -- private copies of the lastprivate variable
  pidx : Nat → Int               -- private copies of the index variable
  arr : List Int                 -- shared array
  last : Option (Int × Int)      -- (lp, idx) written back by the thread that ran iteration N-1

def upd {α} (f : Nat → α) (t : Nat) (v : α) : Nat → α := fun t' => if t' = t then v else f t'

def parInit {w} (b : Body w) (s : Vars w) : PSt w :=
  { pred := fun _ => b.op.ident w, plp := fun _ => s.lp, pidx := fun _ => s.idx, arr := s.arr, last := none }

/-- Thread `ev.1` executes iteration `ev.2`. -/
def parStep {w} (b : Body w) (N : Nat) (p : PSt w) (ev : Nat × Nat) : PSt w :=
  let t := ev.1
  let k := ev.2
  let lp' := (b.asg k).getD (p.plp t)
  let ix' := b.index k
  { pred := upd p.pred t (b.op.apply (p.pred t) (b.g k)),
    plp := upd p.plp t lp',
    pidx := upd p.pidx t ix',
    arr := p.arr.set (b.aidx k) (b.aval k),
    last := if k + 1 = N then some (lp', ix') else p.last }

/-- The whole parallel loop: run the schedule, combine the partial reductions in `merge` order,
write back the lastprivates. -/
def parRun {w} (b : Body w) (s : Vars w) (N : Nat) (sched : List (Nat × Nat)) (merge : List Nat) : Vars w :=
  let p := sched.foldl (parStep b N) (parInit b s)
  { red := merge.foldl (fun acc t => b.op.comb acc (p.pred t)) s.red,
    lp := match p.last with | some (l, _) => l | none => s.lp,
    idx := match p.last with | some (_, i) => i | none => s.idx,
    arr := p.arr }

end CyVerif.C37

import CyVerif.Model.Util
/-!
C22 — exception handling.  Mini-language of nested `try/except/else/finally`, `with`, `raise` (instance, fresh
instance, `from`), bare `raise`, `return`/`break`/`continue`, loops, log points and `sys.exc_info()` probes; the
thread-state model shared by both interpreters; the REFERENCE interpreter `pyExec` (CPython 3.12: PUSH_EXC_INFO /
POP_EXCEPT on the current exc_info slot, `_PyErr_SetObject` context chaining with the cycle-avoidance walk,
`do_raise`, RERAISE, with-statement protocol, unwinding of return/break/continue through handlers and finally).
The Cython protocol interpreter is in `C22Cy.lean`.
-/
namespace CyVerif.C22

/-- an exception object: class index and the three chaining attributes (object ids index the heap) -/
structure ExcObj where
  cls : Nat
  ctx : Option Nat
  cause : Option Nat
  supp : Bool
  deriving DecidableEq, Repr

inductive Cause where
  | no | none | obj (j : Nat)
  deriving DecidableEq, Repr

/-- what `cm.__exit__` does: return a false value, a true value (suppress) or raise `X[k]` -/
inductive ExitAct where
  | falsy | truthy | raises (k : Nat)
  deriving DecidableEq, Repr

mutual
/-- statements; `c : Option Nat` is the index of the selector bit guarding the statement (`none` = unconditional) -/
inductive Stmt where
  | skip
  | seq (a b : Stmt)
  | log (k : Nat)
  | probe
  | raiseI (c : Option Nat) (k : Nat) (cause : Cause)   -- `raise X[k]`, `raise X[k] from None`, `raise X[k] from X[j]`
  | raiseNew (c : Option Nat) (cls : Nat)                -- `raise Cls[cls]` (fresh instance)
  | reraise (c : Option Nat)                             -- bare `raise`
  | ret (c : Option Nat)
  | brk (c : Option Nat)
  | cont (c : Option Nat)
  | tryEx (body : Stmt) (hs : Handlers) (els : Stmt)
  | tryFin (body fin : Stmt)
  | withS (enterRaise : Option Nat) (ex : ExitAct) (body : Stmt)
  | loop (n : Nat) (body : Stmt)
  | delN                                                  -- internal: `del n` of the except-as lowering
inductive Handlers where
  | nil
  | cons (pat : Option Nat) (asn : Bool) (body : Stmt) (rest : Handlers)   -- `except [Cls[pat]] [as n]: body`
end

inductive Ev where
  | log (k : Nat)
  | probe (top : Option Nat) (n : Option Nat) (heap : List ExcObj)
  | enter (top : Option Nat)
  | exit (arg : Option Nat) (top : Option Nat)
  deriving DecidableEq, Repr

/-- observable world + the exc_info part of the thread state.  `cur` is `tstate->exc_info->exc_value`
(`none` = NULL/None), `prev` the `previous_item` chain (non-empty only when the caller is a generator frame). -/
structure TS where
  log : List Ev
  heap : List ExcObj
  cur : Option Nat
  prev : List (Option Nat)
  nb : Option Nat            -- what the name `n` of `except … as n` is bound to
  deriving DecidableEq, Repr

structure Env where
  sel : Nat → Bool           -- selector vector
  sub : Nat → Nat → Bool     -- `sub a b`: class a is a subclass of class b (PyErr_GivenExceptionMatches)

def Env.fires (env : Env) : Option Nat → Bool
  | none => true
  | some i => env.sel i

/-- `_PyErr_GetTopmostException` over a slot list -/
def topmostL : List (Option Nat) → Option Nat
  | [] => none
  | some e :: _ => some e
  | none :: l => topmostL l

def TS.top (ts : TS) : Option Nat := topmostL (ts.cur :: ts.prev)

def clsRuntimeError : Nat := 100

def getCtx (h : List ExcObj) (o : Nat) : Option Nat := (h[o]?).bind (·.ctx)

def setCtx (h : List ExcObj) (o : Nat) (c : Option Nat) : List ExcObj :=
  match h[o]? with
  | some x => h.set o { x with ctx := c }
  | none => h

/-- the cycle-avoidance walk of `_PyErr_SetObject`: starting at `o`, follow `__context__`; the first object whose
context IS `value` gets its context cleared.  (CPython bounds the walk on pre-existing cycles by Floyd's algorithm;
here by the number of objects, which visits the same objects.) -/
def breakCycle (value : Nat) : Nat → List ExcObj → Nat → List ExcObj
  | 0, h, _ => h
  | fuel + 1, h, o =>
    match getCtx h o with
    | none => h
    | some c => if c = value then setCtx h o none else breakCycle value fuel h c

/-- `_PyErr_SetObject(type, value)` for an exception instance: implicit context chaining -/
def setObject (ts : TS) (value : Nat) : TS :=
  match ts.top with
  | none => ts
  | some ev =>
    if ev = value then ts
    else
      let h := breakCycle value (ts.heap.length + 1) ts.heap ev
      { ts with heap := setCtx h value (some ev) }

/-- `PyException_SetCause(value, cause)`: also sets `__suppress_context__` -/
def setCause (h : List ExcObj) (value : Nat) (c : Option Nat) : List ExcObj :=
  match h[value]? with
  | some x => h.set value { x with cause := c, supp := true }
  | none => h

/-- CPython `do_raise(exc, cause)` for an instance: returns the new state (the raised object is `k`) -/
def doRaise (ts : TS) (k : Nat) : Cause → TS
  | .no => setObject ts k
  | .none => setObject { ts with heap := setCause ts.heap k none } k
  | .obj j => setObject { ts with heap := setCause ts.heap k (some j) } k

/-- instantiate class `cls` (fresh object at the end of the heap) and raise it -/
def raiseFresh (ts : TS) (cls : Nat) : Nat × TS :=
  let id := ts.heap.length
  (id, setObject { ts with heap := ts.heap ++ [⟨cls, none, none, false⟩] } id)

def TS.emit (ts : TS) (e : Ev) : TS := { ts with log := ts.log ++ [e] }

def TS.probe (ts : TS) : TS := ts.emit (.probe ts.top ts.nb ts.heap)

/-- does the exception object `e` match the pattern (`none` = bare `except:`) -/
def matchesPat (env : Env) (h : List ExcObj) (e : Nat) : Option Nat → Bool
  | none => true
  | some c => match h[e]? with
    | some x => env.sub x.cls c
    | none => false

inductive Out where
  | norm | exc (e : Nat) | ret | brk | cont
  deriving DecidableEq, Repr

/-- `for _ in range(n): body` over a body semantics `f` -/
def pyIter (f : TS → Out × TS) : Nat → TS → Out × TS
  | 0, ts => (.norm, ts)
  | n + 1, ts =>
    match f ts with
    | (.norm, ts') => pyIter f n ts'
    | (.cont, ts') => pyIter f n ts'
    | (.brk, ts') => (.norm, ts')
    | r => r

/-- call `cm.__exit__` (logs its argument and `sys.exc_info()` inside it); `none` result = it raised -/
def callExit (ts : TS) (arg : Option Nat) : ExitAct → Option Bool × Out × TS
  | .falsy => (some false, .norm, ts.emit (.exit arg ts.top))
  | .truthy => (some true, .norm, ts.emit (.exit arg ts.top))
  | .raises k => let ts1 := ts.emit (.exit arg ts.top); (none, .exc k, doRaise ts1 k .no)

mutual
/-- REFERENCE semantics (CPython 3.12) -/
def pyExec (env : Env) : Stmt → TS → Out × TS
  | .skip, ts => (.norm, ts)
  | .seq a b, ts =>
    match pyExec env a ts with
    | (.norm, ts1) => pyExec env b ts1
    | r => r
  | .log k, ts => (.norm, ts.emit (.log k))
  | .probe, ts => (.norm, ts.probe)
  | .raiseI c k cause, ts => if env.fires c then (.exc k, doRaise ts k cause) else (.norm, ts)
  | .raiseNew c cls, ts => if env.fires c then let r := raiseFresh ts cls; (.exc r.1, r.2) else (.norm, ts)
  | .reraise c, ts =>
    if env.fires c then
      match ts.top with
      | some e => (.exc e, ts)                      -- `_PyErr_SetRaisedException`: no chaining
      | none => let r := raiseFresh ts clsRuntimeError; (.exc r.1, r.2)
    else (.norm, ts)
  | .ret c, ts => if env.fires c then (.ret, ts) else (.norm, ts)
  | .brk c, ts => if env.fires c then (.brk, ts) else (.norm, ts)
  | .cont c, ts => if env.fires c then (.cont, ts) else (.norm, ts)
  | .tryEx body hs els, ts =>
    match pyExec env body ts with
    | (.norm, ts1) => pyExec env els ts1
    | (.exc e, ts1) =>
      -- PUSH_EXC_INFO … POP_EXCEPT (on every way out of the handlers)
      let r := pyDispatch env hs e { ts1 with cur := some e }
      (r.1, { r.2 with cur := ts1.cur })
    | r => r
  | .tryFin body fin, ts =>
    match pyExec env body ts with
    | (.norm, ts1) => pyExec env fin ts1
    | (.exc e, ts1) =>
      let r := pyExec env fin { ts1 with cur := some e }
      ((match r.1 with | .norm => .exc e | o => o), { r.2 with cur := ts1.cur })
    | (o, ts1) =>
      let r := pyExec env fin ts1
      ((match r.1 with | .norm => o | o' => o'), r.2)
  | .withS er ex body, ts =>
    let ts0 := ts.emit (.enter ts.top)
    match er with
    | some k => (.exc k, doRaise ts0 k .no)
    | none =>
      match pyExec env body ts0 with
      | (.exc e, ts1) =>
        let r := callExit { ts1 with cur := some e } (some e) ex
        let o := match r.1 with
          | none => r.2.1
          | some true => .norm
          | some false => .exc e
        (o, { r.2.2 with cur := ts1.cur })
      | (o, ts1) =>
        let r := callExit ts1 none ex
        ((match r.1 with | none => r.2.1 | some _ => o), r.2.2)
  | .loop n body, ts => pyIter (pyExec env body) n ts
  | .delN, ts => (.norm, { ts with nb := none })
def pyDispatch (env : Env) : Handlers → Nat → TS → Out × TS
  | .nil, e, ts => (.exc e, ts)                      -- RERAISE 0
  | .cons pat asn body rest, e, ts =>
    if matchesPat env ts.heap e pat then
      if asn then
        let r := pyExec env body { ts with nb := some e }
        (r.1, { r.2 with nb := none })               -- `n = None; del n` on every way out
      else pyExec env body ts
    else pyDispatch env rest e ts
end

end CyVerif.C22

import CyVerif.Model.C10
import CyVerif.Model.C10Table
/-! C10 — line protocol of the models (`cydrv`). -/
namespace CyVerif.C10

def parseHexNat (s : String) : Option Nat :=
  if s.isEmpty then none
  else s.toList.foldlM (fun acc c => (hexVal c).map (acc * 16 + ·)) 0

/-- comma separated hexadecimal code points, `-` for the empty list -/
def parseCps (s : String) : Option (List Nat) :=
  if s == "-" then some [] else (s.splitOn ",").mapM parseHexNat

def natToHex (n : Nat) : String := String.ofList (Nat.toDigits 16 n)

def cpsToStr (l : List Nat) : String :=
  if l.isEmpty then "-" else ",".intercalate (l.map natToHex)

def optCps : Option (List Nat) → String
  | none => "none"
  | some l => cpsToStr l

def parseKind (s : String) : Option Kind :=
  if s == "u" then some .u else if s == "s" then some .s else if s == "b" then some .b
  else if s == "c" then some .c else if s == "f" then some .f else none

def parseCK (s : String) : Option CK :=
  if s == "u" then some .u else if s == "b" then some .b else if s == "c" then some .c
  else if s == "f" then some .f else none

def ckStr : CK → String
  | .u => "u" | .b => "b" | .c => "c" | .f => "f"

def parseFlag (s : String) : Option Bool :=
  if s == "1" then some true else if s == "0" then some false else none

/-- `name:code;name:M;…` (names as hex bytes), `-` for none; names not listed are missing -/
def parseLookup (s : String) : Option Lookup :=
  if s == "-" then some (fun _ => .missing)
  else do
    let ents ← (s.splitOn ";").mapM fun e =>
      match e.splitOn ":" with
      | [a, b] => do
        let nm ← parseHexBytes a
        if b == "M" then pure (nm, LookupRes.multi) else
          let n ← parseHexNat b
          pure (nm, LookupRes.code n)
      | _ => none
    pure fun nm => match ents.find? (·.1 == nm) with
      | some (_, r) => r
      | none => .missing

def handleA : List String → Option String
  | ["lit", k, raw, nameCh, wrap, lk, body] => do
    let k ← parseKind k; let raw ← parseFlag raw; let nc ← parseHexBytes nameCh; let wrap ← parseFlag wrap
    let lk ← parseLookup lk; let body ← parseCps body
    pure <| match cyDecode ⟨nc, wrap⟩ lk k raw body with
      | .ok v => s!"ok b={optCps v.bytes} u={optCps v.text}"
      | .err e => s!"err {e}"
  | ["ref", k, raw, lk, body] => do
    let k ← parseKind k; let raw ← parseFlag raw
    let lk ← parseLookup lk; let body ← parseCps body
    pure <| match refDecode lk k raw body with
      | .ok v => s!"ok {cpsToStr v}"
      | .err e => s!"err {e}"
  | ["esclen", nameCh, rest] => do
    let nc ← parseHexBytes nameCh; let rest ← parseCps rest
    pure s!"ok {escLen ⟨nc, false⟩ rest}"
  | "cat" :: parts => do
    let ps ← parts.mapM fun p =>
      match p.splitOn ":" with
      | [k, v] => do pure ((← parseCK k), (← parseCps v))
      | _ => none
    pure <| match cyCat ps, refCat ps with
      | a, b =>
        let sh := fun (r : Res (CK × List Nat)) => match r with
          | .ok (k, v) => s!"ok {ckStr k}:{cpsToStr v}"
          | .err e => s!"err {e}"
        sh a ++ " | " ++ sh b
  | _ => none

/-! ### part B -/

/-- `I:cnamehex:cps;N:cnamehex:cps;…` -/
def parseTexts (s : String) : Option (List TextEntry) :=
  if s == "-" then some [] else (s.splitOn ";").mapM fun e =>
    match e.splitOn ":" with
    | [i, c, t] => do
      let c ← parseHexBytes c; let t ← parseCps t
      if i == "I" then pure ⟨true, c, t⟩ else if i == "N" then pure ⟨false, c, t⟩ else none
    | _ => none

/-- `cnamehex:datahex;…` -/
def parseBytesEntries (s : String) : Option (List BytesEntry) :=
  if s == "-" then some [] else (s.splitOn ";").mapM fun e =>
    match e.splitOn ":" with
    | [c, d] => do pure ⟨(← parseHexBytes c), (← parseHexBytes d)⟩
    | _ => none

def parseNats (s : String) : Option (List Nat) :=
  if s == "-" then some [] else (s.splitOn ",").mapM parseNat?

def natsStr (l : List Nat) : String := if l.isEmpty then "-" else ",".intercalate (l.map toString)

def constsStr (l : List PyConst) : String :=
  if l.isEmpty then "-" else ";".intercalate (l.map fun
    | .text c i => (if i then "I:" else "N:") ++ cpsToStr c
    | .bytes d => "B:" ++ bytesToHex d)

def layoutStr (L : Layout) : String :=
  s!"ok sw={L.strWidth} si={natsStr L.strIndex} bw={L.bytesWidth} bi={natsStr L.bytesIndex} " ++
  s!"n={L.nText}/{L.nTotal} fi={match L.firstInterned with | some f => toString f | none => "-1"} " ++
  s!"blob={bytesToHex L.blob} defs=" ++
  (if L.defines.isEmpty then "-" else ",".intercalate (L.defines.map fun d => bytesToHex d.1 ++ "=" ++ toString d.2))

def handleB : List String → Option String
  | ["compile", mw, il, ts, bs] => do
    let mw ← parseNat? mw; let il ← parseNat? il
    let ts ← parseTexts ts; let bs ← parseBytesEntries bs
    pure <| match compileTable ⟨mw, il⟩ ts bs with
      | .ok L => layoutStr L
      | .err e => s!"err {e}"
  | "run" :: mw :: il :: sw :: si :: bw :: bi :: nT :: nA :: fi :: form => do
    let mw ← parseNat? mw; let il ← parseNat? il
    let sw ← parseNat? sw; let si ← parseNats si; let bw ← parseNat? bw; let bi ← parseNats bi
    let nT ← parseNat? nT; let nA ← parseNat? nA
    let fi ← if fi == "-1" then some none else (parseNat? fi).map some
    let L : Layout := { strIndex := si, strWidth := sw, bytesIndex := bi, bytesWidth := bw, blob := [],
                        nText := nT, nTotal := nA, firstInterned := fi, defines := [] }
    let data : Res (List Nat) ← match form with
      | ["raw", d] => (parseHexBytes d).map .ok
      | ["plain", tri, lit] => do
        let lit ← parseHexBytes lit; let tri ← parseFlag tri
        pure (match C11.cLex tri lit with | some d => .ok d | none => .err "cc-literal")
      | ["chars", tri, toks] => do
        let tri ← parseFlag tri
        let ts ← (toks.splitOn ".").mapM parseHexBytes
        pure (match ts.mapM (C11.cCharLex tri) with | some d => .ok d | none => .err "cc-literal")
      | ["lzss", tri, lit, cl, ul] => do
        let lit ← parseHexBytes lit; let tri ← parseFlag tri
        let cl ← parseNat? cl; let ul ← parseNat? ul
        pure (match C11.cLex tri lit with
          | some c => lzssWrapper c cl ul
          | none => .err "cc-literal")
      | _ => none
    pure <| match data with
      | .err e => s!"err {e}"
      | .ok d =>
        if si.length ≠ nT ∨ si.length + bi.length ≠ nA then "err ub-index-size"
        else match runTable ⟨mw, il⟩ L d with
          | .ok cs => "ok " ++ constsStr cs
          | .err e => s!"err {e}"
  | ["utf8dec", d] => do
    let d ← parseHexBytes d
    pure (match utf8Decode d with | some c => "ok " ++ cpsToStr c | none => "err UnicodeDecodeError")
  | ["utf8enc", c] => do
    let c ← parseCps c
    pure (match utf8Encode c with | .ok b => "ok " ++ bytesToHex b | .err e => s!"err {e}")
  | _ => none

def handle (args : List String) : String :=
  match handleA args with
  | some r => r
  | none => match handleB args with
    | some r => r
    | none => "bad-op"

end CyVerif.C10

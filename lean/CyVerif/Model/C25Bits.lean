/-! C25 — the bit-field packing of code-object counts
(`Code.py: GlobalState.generate_codeobject_constants` sizes the fields of
`__Pyx_PyCode_New_function_description`; `ExprNodes.py: CodeObjectNode.generate_codeobj` writes the
counts; C stores `count mod 2^width` in an unsigned bit field).  No Mathlib. -/
namespace CyVerif.C25Bits

/-- Python's `int.bit_length` -/
def bitLength (n : Nat) : Nat := if n = 0 then 0 else n.log2 + 1

/-- `max_… = 1; for node in code objects: max_… = max(max_…, count)` -/
def maxFrom1 (cs : List Nat) : Nat := cs.foldl max 1

/-- declared width of a field sized over the counts `cs` -/
def widthOf (cs : List Nat) : Nat := bitLength (maxFrom1 cs)

/-- what an `unsigned int f : w` holds after `f = c` -/
def pack (w c : Nat) : Nat := c % 2 ^ w

/-- reading the field back -/
def unpack (v : Nat) : Nat := v

def parseNats (s : String) : Option (List Nat) :=
  if s = "-" then some [] else (s.splitOn ",").mapM String.toNat?

/-- `width <c1,c2,…|->` → declared width; `pack <w> <c>` → stored value; `fits <w> <c>` → 1/0 -/
def handle : List String → String
  | ["width", cs] =>
    match parseNats cs with
    | some l => s!"ok {widthOf l}"
    | none => "bad-op"
  | ["pack", w, c] =>
    match w.toNat?, c.toNat? with
    | some w, some c => s!"ok {unpack (pack w c)}"
    | _, _ => "bad-op"
  | ["fits", w, c] =>
    match w.toNat?, c.toNat? with
    | some w, some c => if c < 2 ^ w then "ok 1" else "ok 0"
    | _, _ => "bad-op"
  | _ => "bad-op"

end CyVerif.C25Bits

import CyVerif.Model.Util
/-!
Model of `Cython/Utility/Overflow.c` (every checked helper, both preprocessor
variants), of the `Binop` size dispatch, of `LeftShift`, of
`__Pyx_UNARY_NEG_WOULD_OVERFLOW`, and of the C code that
`ExprNodes.NumBinopNode` / `UnaryMinusNode` / `DivNode` emit when the
`overflowcheck` directive is on (with `overflowcheck.fold` on or off, after
`Optimize.ConsolidateOverflowCheck`).

Conventions (DESIGN 2.3): a C integer type is `(sg, w)` = (signed?, width in
bits); values are mathematical `Int`s carrying the range invariant `InR` as a
hypothesis.  Every C operation that can be undefined returns `Except Ub _`:
signed arithmetic does not wrap (it is `Ub.signedOverflow`), unsigned and
explicitly cast arithmetic wraps (`wrap`).  A theorem `helper … = .ok …`
therefore also says "no C undefined behaviour on that input".

The overflow flag `int *overflow` is modelled as a `Bool` ("non-zero"); a
contribution `*overflow |= X` with `X` of a wider unsigned type is modelled by
`flagOf`, which keeps the truncation to `int` visible.
-/
namespace CyVerif.C04

/-- kinds of C undefined behaviour (plus the `Py_FatalError` path of `Binop`) -/
inductive Ub where
  | signedOverflow | shiftRange | divByZero | divOverflow | fatal
  deriving DecidableEq, Repr

def Ub.name : Ub → String
  | .signedOverflow => "signed-overflow"
  | .shiftRange => "shift-range"
  | .divByZero => "div-by-zero"
  | .divOverflow => "div-overflow"
  | .fatal => "fatal"

deriving instance DecidableEq for Except

/-- widths of `int`, `long`, `PY_LONG_LONG` on the platform -/
structure Plat where
  wint : Nat
  wl : Nat
  wll : Nat
  deriving DecidableEq, Repr

/-- what the code silently relies on: `int ≤ long ≤ long long`, and a strictly wider type is at
least twice as wide (so a widened product cannot overflow).  True for ILP32, LP64, LLP64. -/
def Plat.WF (P : Plat) : Prop :=
  2 ≤ P.wint ∧ P.wint ≤ P.wl ∧ P.wl ≤ P.wll ∧
  (P.wint < P.wl → 2 * P.wint ≤ P.wl) ∧ (P.wint < P.wll → 2 * P.wint ≤ P.wll) ∧
  (P.wl < P.wll → 2 * P.wl ≤ P.wll)

instance (P : Plat) : Decidable P.WF := by unfold Plat.WF; exact inferInstance

/-! ## C integer types -/

def tmin (sg : Bool) (w : Nat) : Int := if sg then -(2 : Int) ^ (w - 1) else 0
def tmax (sg : Bool) (w : Nat) : Int := if sg then (2 : Int) ^ (w - 1) - 1 else (2 : Int) ^ w - 1

/-- `x` is representable in the type `(sg, w)` -/
def InR (sg : Bool) (w : Nat) (x : Int) : Prop := tmin sg w ≤ x ∧ x ≤ tmax sg w

instance (sg w x) : Decidable (InR sg w x) := by unfold InR; exact inferInstance

/-- conversion of a mathematical integer to the type `(sg, w)`: reduction mod `2^w` into the
type's range (C unsigned conversion; gcc's implementation-defined signed conversion). -/
def wrap (sg : Bool) (w : Nat) (x : Int) : Int :=
  if sg then (x + (2 : Int) ^ (w - 1)) % (2 : Int) ^ w - (2 : Int) ^ (w - 1) else x % (2 : Int) ^ w

/-- `(unsigned T) x` as a natural number -/
def toU (w : Nat) (x : Int) : Nat := (x % (2 : Int) ^ w).toNat

/-- `*overflow |= X` for an `X` computed in a (possibly wider) unsigned type: the `int` flag
becomes non-zero iff the low `wint` bits of `X` are non-zero. -/
def flagOf (P : Plat) (x : Nat) : Bool := decide (x % 2 ^ P.wint ≠ 0)

/-! ## primitive C operations with their undefined cases -/

def sadd (w : Nat) (a b : Int) : Except Ub Int :=
  if InR true w (a + b) then .ok (a + b) else .error .signedOverflow

def ssub (w : Nat) (a b : Int) : Except Ub Int :=
  if InR true w (a - b) then .ok (a - b) else .error .signedOverflow

def smul (w : Nat) (a b : Int) : Except Ub Int :=
  if InR true w (a * b) then .ok (a * b) else .error .signedOverflow

def sneg (w : Nat) (a : Int) : Except Ub Int :=
  if InR true w (-a) then .ok (-a) else .error .signedOverflow

/-- C `a / b` in the type `(sg, w)` -/
def cdiv (sg : Bool) (w : Nat) (a b : Int) : Except Ub Int :=
  if b = 0 then .error .divByZero
  else if sg ∧ a = tmin sg w ∧ b = -1 then .error .divOverflow
  else .ok (Int.tdiv a b)

/-- C `a << b` in the (promoted) type `(sg, w)` (C99 6.5.7) -/
def cshl (sg : Bool) (w : Nat) (a b : Int) : Except Ub Int :=
  if b < 0 ∨ (w : Int) ≤ b then .error .shiftRange
  else if sg then
    if a < 0 ∨ tmax sg w < a * (2 : Int) ^ b.toNat then .error .signedOverflow
    else .ok (a * (2 : Int) ^ b.toNat)
  else .ok ((a * (2 : Int) ^ b.toNat) % (2 : Int) ^ w)

/-- C `a >> b` (gcc: arithmetic shift for negative `a`) -/
def cshr (w : Nat) (a b : Int) : Except Ub Int :=
  if b < 0 ∨ (w : Int) ≤ b then .error .shiftRange
  else .ok (a / (2 : Int) ^ b.toNat)

/-! ## the macros of `Common.proto` -/

/-- `__PYX_HALF_MAX(type)` = `((type) 1) << (sizeof(type) * 8 - 2)` -/
def pyxHalfMax (w : Nat) : Int := (2 : Int) ^ (w - 2)
/-- `__PYX_MIN(type)` = `__PYX_IS_UNSIGNED(type) ? (type) 0 : 0 - HALF_MAX - HALF_MAX` -/
def pyxMin (sg : Bool) (w : Nat) : Int := if sg then 0 - pyxHalfMax w - pyxHalfMax w else 0
/-- `__PYX_MAX(type)` = `~__PYX_MIN(type)`; for a signed type `~x = -x - 1`, for an unsigned
type of at least `int` rank `~0` is all ones.  (An unsigned type narrower than `int` is promoted:
`~0 = -1`; only `LeftShift` could see that, see `lshift`.) -/
def pyxMax (sg : Bool) (w : Nat) : Int := if sg then -(pyxMin sg w) - 1 else (2 : Int) ^ w - 1

/-- `__PYX_MAX(type)` as the C compiler really evaluates it: for an unsigned type narrower than
`int` the operand of `~` is promoted, so the macro yields `~0 = -1`. -/
def pyxMaxP (P : Plat) (sg : Bool) (w : Nat) : Int := if ¬ sg ∧ w < P.wint then -1 else pyxMax sg w

/-- `__Pyx_UNARY_NEG_WOULD_OVERFLOW(x)` = `((x) < 0) & ((unsigned long)(x) == 0-(unsigned long)(x))`
for an `x` of the signed type of width `w` (conversion to `unsigned long` is reduction mod `2^wl`). -/
def unaryNegWouldOverflow (P : Plat) (x : Int) : Bool :=
  decide (x < 0) && decide (toU P.wl x = (0 + 2 ^ P.wl - toU P.wl x) % 2 ^ P.wl)

/-! ## `__builtin_*_overflow` (GCC manual: infinite-precision result, cast to the result type,
returns true iff the stored value differs from the infinite-precision result) -/

def builtinOvf (sg : Bool) (w : Nat) (exact : Int) : Int × Bool :=
  (wrap sg w exact, decide (wrap sg w exact ≠ exact))

/-! ## which preprocessor variant / what the C compiler knows about constness -/

inductive Variant where
  | builtin    -- `__PYX_HAVE_BUILTIN_OVERFLOW` defined
  | portable
  deriving DecidableEq, Repr

/-- values of `__Pyx_is_constant(a)`, `__Pyx_is_constant(b)` inside `mul` and of
`__Pyx_is_constant(a) && !__Pyx_is_constant(b)` inside `mul_const`: depends on inlining and
optimisation level, so the theorems quantify over all of them. -/
structure Constp where
  ca : Bool
  cb : Bool
  swap : Bool
  deriving DecidableEq, Repr

/-! ## BaseCaseSigned (portable branch) -/

/-- sign-bit extraction `X >> (8*sizeof(T) - 1)` of a `w`-bit unsigned value -/
def topBit (w : Nat) (x : Nat) : Nat := x >>> (w - 1)

def addS_portable (P : Plat) (w : Nat) (a b : Int) : Except Ub (Int × Bool) :=
  if w < P.wl then do
    let big ← sadd P.wl a b
    let r := wrap true w big
    pure (r, decide (big ≠ r))
  else if w < P.wll then do
    let big ← sadd P.wll a b
    let r := wrap true w big
    pure (r, decide (big ≠ r))
  else
    let ua := toU w a
    let ub := toU w b
    let r := (ua + ub) % 2 ^ w
    pure (wrap true w r, flagOf P (topBit w ((ua ^^^ r) &&& (ub ^^^ r))))

def subS_portable (P : Plat) (w : Nat) (a b : Int) : Except Ub (Int × Bool) :=
  let ua := toU w a
  let ub := toU w b
  let r := (ua + 2 ^ w - ub) % 2 ^ w
  pure (wrap true w r, flagOf P (topBit w ((ua ^^^ ub) &&& (ua ^^^ r))))

def mulConstS_portable (w : Nat) (swap : Bool) (a0 b0 : Int) : Except Ub (Int × Bool) :=
  let a := if swap then b0 else a0
  let b := if swap then a0 else b0
  let prod := wrap true w (((toU w a * toU w b) % 2 ^ w : Nat) : Int)
  if 1 < b then do
    let q1 ← cdiv true w (pyxMax true w) b
    let q2 ← cdiv true w (pyxMin true w) b
    pure (prod, decide (q1 < a) || decide (a < q2))
  else if b = -1 then
    pure (prod, decide (a = pyxMin true w))
  else if b < -1 then do
    let q1 ← cdiv true w (pyxMin true w) b
    let q2 ← cdiv true w (pyxMax true w) b
    pure (prod, decide (q1 < a) || decide (a < q2))
  else
    pure (prod, false)

def mulS_portable (P : Plat) (w : Nat) (cp : Constp) (a b : Int) : Except Ub (Int × Bool) :=
  if cp.cb then mulConstS_portable w cp.swap a b
  else if cp.ca then mulConstS_portable w cp.swap b a
  else if w < P.wl then do
    let big ← smul P.wl a b
    let r := wrap true w big
    pure (r, decide (big ≠ r))
  else if w < P.wll then do
    let big ← smul P.wll a b
    let r := wrap true w big
    pure (r, decide (big ≠ r))
  else mulConstS_portable w cp.swap a b

/-- `__Pyx_div_{{NAME}}_checking_overflow` (signed; shared by both variants; the compiler never
calls it — `/` and `//` are not in `overflow_op_names`).  Note the UNSIGNED division. -/
def divS (w : Nat) (a b : Int) : Except Ub (Int × Bool) :=
  if b = 0 then pure (0, true)
  else
    let f := decide (a = pyxMin true w) && decide (b = -1)
    pure (wrap true w ((toU w a / toU w b : Nat) : Int), f)

/-- the same helper with the candidate repair (signed division, early return on `MIN / -1`) -/
def divS_fixed (w : Nat) (a b : Int) : Except Ub (Int × Bool) :=
  if b = 0 then pure (0, true)
  else if a = pyxMin true w ∧ b = -1 then pure (0, true)
  else do
    let q ← cdiv true w a b
    pure (q, false)

/-! ## BaseCaseUnsigned (portable branch) -/

def addU_portable (w : Nat) (a b : Int) : Except Ub (Int × Bool) :=
  let r := (a + b) % (2 : Int) ^ w
  pure (r, decide (r < a))

def subU_portable (w : Nat) (a b : Int) : Except Ub (Int × Bool) :=
  let r := (a - b) % (2 : Int) ^ w
  pure (r, decide (a < r))

def mulConstU_portable (w : Nat) (swap : Bool) (a0 b0 : Int) : Except Ub (Int × Bool) :=
  let a := if swap then b0 else a0
  let b := if swap then a0 else b0
  let prod := (a * b) % (2 : Int) ^ w
  if b ≠ 0 then do
    let q ← cdiv false w (pyxMax false w) b
    pure (prod, decide (q < a))
  else pure (prod, false)

def mulU_portable (P : Plat) (w : Nat) (cp : Constp) (a b : Int) : Except Ub (Int × Bool) :=
  if cp.cb then mulConstU_portable w cp.swap a b
  else if cp.ca then mulConstU_portable w cp.swap b a
  else if w < P.wl then
    let big := (a * b) % (2 : Int) ^ P.wl
    let r := big % (2 : Int) ^ w
    pure (r, decide (big ≠ r))
  else if w < P.wll then
    let big := (a * b) % (2 : Int) ^ P.wll
    let r := big % (2 : Int) ^ w
    pure (r, decide (big ≠ r))
  else mulConstU_portable w cp.swap a b

def divU (a b : Int) : Except Ub (Int × Bool) :=
  if b = 0 then pure (0, true) else pure (a / b, false)

/-! ## the helpers as the compiler sees them: `__Pyx_<op>[_const]_<type>_checking_overflow` -/

inductive Op where
  | add | sub | mul | div
  deriving DecidableEq, Repr

/-- the exact mathematical result (C `/` truncates) -/
def Op.exact : Op → Int → Int → Int
  | .add, a, b => a + b
  | .sub, a, b => a - b
  | .mul, a, b => a * b
  | .div, a, b => Int.tdiv a b

/-- base-case helper for the C type `(sg, w)` ∈ {int, long, long long} × {signed, unsigned};
`const` selects the `_const` name (only `mul_const` differs, and only in the portable variant). -/
def helper (V : Variant) (P : Plat) (divFixed : Bool) (sg : Bool) (w : Nat) (op : Op) (const : Bool)
    (cp : Constp) (a b : Int) : Except Ub (Int × Bool) :=
  match op with
  | .div => if sg then (if divFixed then divS_fixed w a b else divS w a b) else divU a b
  | .add =>
    match V with
    | .builtin => pure (builtinOvf sg w (a + b))
    | .portable => if sg then addS_portable P w a b else addU_portable w a b
  | .sub =>
    match V with
    | .builtin => pure (builtinOvf sg w (a - b))
    | .portable => if sg then subS_portable P w a b else subU_portable w a b
  | .mul =>
    match V with
    | .builtin => pure (builtinOvf sg w (a * b))
    | .portable =>
      if const then (if sg then mulConstS_portable w cp.swap a b else mulConstU_portable w cp.swap a b)
      else (if sg then mulS_portable P w cp a b else mulU_portable P w cp a b)

/-! ## SizeCheck and Binop (typedef'd / platform types such as `Py_ssize_t`, `size_t`) -/

/-- `__Pyx_check_sane_{{NAME}}`: module init fails with RuntimeError otherwise -/
def sizeSane (P : Plat) (w : Nat) : Bool :=
  decide (w ≤ P.wint) || decide (w = P.wll) || decide (w = P.wl)

/-- `__Pyx_{{BINOP}}_no_overflow(a, b, overflow)` = `((a) op (b))` on operands promoted to the signed
type of width `W` (`int`; `PY_LONG_LONG` in the repaired variant, which casts the operands) -/
def noOverflowOp (W : Nat) (op : Op) (a b : Int) : Except Ub Int :=
  match op with
  | .add => sadd W a b
  | .sub => ssub W a b
  | .mul => smul W a b
  | .div => cdiv true W a b

/-- `__Pyx_{{BINOP}}_{{NAME}}_checking_overflow` of the `Binop` section for a type `(sg, w)`.
`narrowFixed` = candidate repair (compute in `PY_LONG_LONG`, flag a result that does not survive
the conversion back to `{{TYPE}}`). -/
def binop (V : Variant) (P : Plat) (narrowFixed divFixed : Bool) (sg : Bool) (w : Nat) (op : Op)
    (const : Bool) (cp : Constp) (a b : Int) : Except Ub (Int × Bool) :=
  if w < P.wint then do
    let r ← noOverflowOp (if narrowFixed then P.wll else P.wint) op a b
    pure (wrap sg w r, narrowFixed && decide (wrap sg w r ≠ r))
  else if w = P.wint then helper V P divFixed sg P.wint op const cp a b
  else if w = P.wl then helper V P divFixed sg P.wl op const cp a b
  else if w = P.wll then helper V P divFixed sg P.wll op const cp a b
  else .error .fatal

/-! ## LeftShift -/

/-- `__Pyx_lshift_{{NAME}}_checking_overflow` for `{{TYPE}}` = `(sg, w)`; `a << b` is evaluated in
the promoted type (`int` if `w < wint`). -/
def lshift (P : Plat) (sg : Bool) (w : Nat) (a b : Int) : Except Ub (Int × Bool) :=
  if sg ∧ (a < 0 ∨ b < 0) then pure (0, true)
  else if (w : Int) ≤ b then pure (0, true)
  else do
    let pw := if w < P.wint then P.wint else w
    let psg := if w < P.wint then true else sg
    let m ← cshr pw (pyxMaxP P sg w) b
    if m < a then pure (0, true)
    else do
      let r ← cshl psg pw a b
      pure (wrap sg w r, false)

/-! ## the code emitted by `NumBinopNode` (overflow_check) — one operator, own flag -/

/-- outcome of a piece of generated code -/
inductive Out where
  | val (v : Int)
  | raise (e : String)
  | ub (k : Ub)
  deriving DecidableEq, Repr

def Out.render : Out → String
  | .val v => s!"ok {v}"
  | .raise e => s!"err {e}"
  | .ub k => s!"ub {k.name}"

/-- operators that `NumBinopNode.overflow_op_names` routes to a helper -/
inductive BOp where
  | add | sub | mul | lshift
  deriving DecidableEq, Repr

def BOp.exactDefined : BOp → Int → Int → Prop
  | .lshift, _, b => 0 ≤ b
  | _, _, _ => True

instance (o : BOp) (a b : Int) : Decidable (o.exactDefined a b) := by
  cases o <;> unfold BOp.exactDefined <;> exact inferInstance

def BOp.exact : BOp → Int → Int → Int
  | .add, a, b => a + b
  | .sub, a, b => a - b
  | .mul, a, b => a * b
  | .lshift, a, b => a * (2 : Int) ^ b.toNat

/-- configuration of the generated module -/
structure Cfg where
  V : Variant
  P : Plat
  cp : Constp
  narrowFixed : Bool := false
  divFixed : Bool := false

/-- the call `self.func(op1, op2, &overflow_bit)` for a node of C type `(sg, w)`; `base` says that
the type is spelled `int`/`long`/`long long` (helper called directly) rather than a typedef
(`Binop` dispatch). -/
def callHelper (C : Cfg) (base : Bool) (sg : Bool) (w : Nat) (op : BOp) (const : Bool) (a b : Int) :
    Except Ub (Int × Bool) :=
  match op with
  | .lshift => lshift C.P sg w a b
  | .add => if base then helper C.V C.P C.divFixed sg w .add const C.cp a b
            else binop C.V C.P C.narrowFixed C.divFixed sg w .add const C.cp a b
  | .sub => if base then helper C.V C.P C.divFixed sg w .sub const C.cp a b
            else binop C.V C.P C.narrowFixed C.divFixed sg w .sub const C.cp a b
  | .mul => if base then helper C.V C.P C.divFixed sg w .mul const C.cp a b
            else binop C.V C.P C.narrowFixed C.divFixed sg w .mul const C.cp a b

/-- `NumBinopNode.generate_evaluation_code` with `overflow_check`: `bit = 0; r = f(a, b, &bit);
if (bit) raise OverflowError` -/
def emitBinop (C : Cfg) (base : Bool) (sg : Bool) (w : Nat) (op : BOp) (const : Bool) (a b : Int) : Out :=
  match callHelper C base sg w op const a b with
  | .error k => .ub k
  | .ok (r, f) => if f then .raise "OverflowError" else .val r

/-! ## unary minus (`UnaryMinusNode`): emitted as plain `(-x)`; never looks at `overflowcheck` -/

/-- `fixed` = candidate repair: route `-x` through the checked `0 - x` helper -/
def emitNeg (C : Cfg) (fixed : Bool) (base : Bool) (sg : Bool) (w : Nat) (x : Int) : Out :=
  if fixed then emitBinop C base sg w .sub false 0 x
  else if sg then
    match sneg w x with
    | .ok v => .val v
    | .error k => .ub k
  else .val (wrap false w (-x))

/-! ## `//` and `/` (`DivNode`): never routed to a checked helper -/

/-- `__Pyx_div_<type>(a, b, b_is_constant)` of CMath.c (`DivInt`): C division then floor adjust -/
def divInt (w : Nat) (a b : Int) : Except Ub Int := do
  let q ← cdiv true w a b
  let qb ← smul w q b
  let r ← ssub w a qb
  let adapt : Int := if r ≠ 0 ∧ ((r < 0) ≠ (b < 0)) then 1 else 0
  ssub w q adapt

structure DivFix where
  /-- guard `MIN // -1` for every width, not only `sizeof(type) == sizeof(long)` -/
  allWidths : Bool := false
  /-- emit the guard also when the divisor is a non-zero compile-time constant -/
  constDivisor : Bool := false
  /-- emit the guard also for C division (`cdivision=True`) when `overflowcheck` is on -/
  cdivision : Bool := false

/-- the `-1` guard of `generate_div_warning_code` -/
def divGuard (P : Plat) (fx : DivFix) (w : Nat) (a b : Int) : Bool :=
  if fx.allWidths then decide (b = -1) && decide (a = tmin true w)
  else decide (w = P.wl) && decide (b = -1) && unaryNegWouldOverflow P a

/-- code emitted for `a // b` (also `a / b` under `cdivision=True` or language level 2) on operands
already coerced to the result type `(sg, w)`.  `cdivision` = directive; `const` = the divisor is a
compile-time constant (then `zerodivision_check` is off unless the constant is 0). -/
def emitFloorDiv (P : Plat) (fx : DivFix) (sg : Bool) (w : Nat) (cdivision const : Bool) (a b : Int) : Out :=
  let zerocheck := !cdivision && (!const || decide (b = 0))
  if zerocheck && decide (b = 0) then .raise "ZeroDivisionError"
  else if sg && !cdivision && (zerocheck || fx.constDivisor) && divGuard P fx w a b then
    .raise "OverflowError"
  else if sg && cdivision && fx.cdivision && decide (b = -1) && decide (a = tmin true w) then
    .raise "OverflowError"
  else if cdivision || !sg then
    match cdiv sg w a b with
    | .ok v => .val v
    | .error k => .ub k
  else
    match divInt w a b with
    | .ok v => .val v
    | .error k => .ub k

/-! ## nested expressions and `overflowcheck.fold` -/

/-- side-effect-free expression whose nodes all have the C type `(sg, w)` -/
inductive Expr where
  | leaf (v : Int)
  | bin (op : BOp) (const : Bool) (l r : Expr)
  deriving Repr

/-- exact value of the expression over the integers -/
def Expr.denote : Expr → Int
  | .leaf v => v
  | .bin op _ l r => op.exact l.denote r.denote

/-- every operator application has a defined exact result that fits the type -/
def Expr.AllFit (sg : Bool) (w : Nat) : Expr → Prop
  | .leaf v => InR sg w v
  | .bin op _ l r => l.AllFit sg w ∧ r.AllFit sg w ∧ op.exactDefined l.denote r.denote ∧
      InR sg w (op.exact l.denote r.denote)

/-- `overflowcheck.fold=True`: every node of the tree writes into the one flag of the top node -/
def evalFold (C : Cfg) (base sg : Bool) (w : Nat) : Expr → Except Ub (Int × Bool)
  | .leaf v => pure (v, false)
  | .bin op const l r => do
    let (vl, fl) ← evalFold C base sg w l
    let (vr, fr) ← evalFold C base sg w r
    let (v, f) ← callHelper C base sg w op const vl vr
    pure (v, fl || fr || f)

/-- the folded statement: flag tested once, after the whole tree -/
def emitFold (C : Cfg) (base sg : Bool) (w : Nat) (e : Expr) : Out :=
  match evalFold C base sg w e with
  | .error k => .ub k
  | .ok (v, f) => if f then .raise "OverflowError" else .val v

/-- `overflowcheck.fold=False`: every node has its own flag and tests it at once -/
def emitNoFold (C : Cfg) (base sg : Bool) (w : Nat) : Expr → Out
  | .leaf v => .val v
  | .bin op const l r =>
    match emitNoFold C base sg w l with
    | .val vl =>
      match emitNoFold C base sg w r with
      | .val vr => emitBinop C base sg w op const vl vr
      | o => o
    | o => o

/-- `a // (b + c) + d`‐shaped statement under fold: `ConsolidateOverflowCheck` lets the inner `+`
share the flag of the outer `+` THROUGH the (unchecked) division node.  `scopeFixed` = candidate
repair (an unchecked `NumBinopNode` closes the fold scope like any other node). -/
def emitFoldThroughDiv (C : Cfg) (fx : DivFix) (scopeFixed : Bool) (base sg : Bool) (w : Nat)
    (cdivision : Bool) (a b c d : Int) : Out :=
  if scopeFixed then
    match emitBinop C base sg w .add false b c with
    | .val s =>
      match emitFloorDiv C.P fx sg w cdivision false a s with
      | .val q => emitBinop C base sg w .add false q d
      | o => o
    | o => o
  else
    match callHelper C base sg w .add false b c with
    | .error k => .ub k
    | .ok (s, f1) =>
      match emitFloorDiv C.P fx sg w cdivision false a s with
      | .val q =>
        match callHelper C base sg w .add false q d with
        | .error k => .ub k
        | .ok (r, f2) => if f1 || f2 then .raise "OverflowError" else .val r
      | o => o

/-! ## line protocol -/

def parseBool? : String → Option Bool
  | "0" => some false
  | "1" => some true
  | _ => none

def parseVariant? : String → Option Variant
  | "b" => some .builtin
  | "p" => some .portable
  | _ => none

def parseOp? : String → Option Op
  | "add" => some .add
  | "sub" => some .sub
  | "mul" => some .mul
  | "div" => some .div
  | _ => none

def parseBOp? : String → Option BOp
  | "add" => some .add
  | "sub" => some .sub
  | "mul" => some .mul
  | "lshift" => some .lshift
  | _ => none

/-- `"wint,wl,wll"` -/
def parsePlat? (s : String) : Option Plat :=
  match (s.splitOn ",").map String.toNat? with
  | [some a, some b, some c] => some ⟨a, b, c⟩
  | _ => none

/-- three bits `ca cb swap` -/
def parseConstp? (s : String) : Option Constp :=
  match s.toList with
  | [x, y, z] =>
    match parseBool? (String.singleton x), parseBool? (String.singleton y), parseBool? (String.singleton z) with
    | some a, some b, some c => some ⟨a, b, c⟩
    | _, _, _ => none
  | _ => none

def renderHelper : Except Ub (Int × Bool) → String
  | .ok (r, f) => s!"ok {r} {if f then 1 else 0}"
  | .error k => s!"ub {k.name}"

/-- prefix notation: `L v` | `B op const l r` -/
def parseExpr : Nat → List String → Option (Expr × List String)
  | 0, _ => none
  | _ + 1, "L" :: v :: rest => (parseInt? v).map fun v => (.leaf v, rest)
  | n + 1, "B" :: op :: c :: rest =>
    match parseBOp? op, parseBool? c with
    | some op, some c =>
      match parseExpr n rest with
      | some (l, rest) =>
        match parseExpr n rest with
        | some (r, rest) => some (.bin op c l r, rest)
        | none => none
      | none => none
    | _, _ => none
  | _, _ => none

def Expr.leavesIn (sg : Bool) (w : Nat) : Expr → Bool
  | .leaf v => decide (InR sg w v)
  | .bin _ _ l r => l.leavesIn sg w && r.leavesIn sg w

/-- fix bits: `narrow div neg divAllWidths divConst divCdiv scope` -/
structure Fixes where
  narrow : Bool
  div : Bool
  neg : Bool
  dAll : Bool
  dConst : Bool
  dCdiv : Bool
  scope : Bool

def parseFixes? (s : String) : Option Fixes :=
  match s.toList.map (fun c => parseBool? (String.singleton c)) with
  | [some a, some b, some c, some d, some e, some f, some g] => some ⟨a, b, c, d, e, f, g⟩
  | _ => none

def Fixes.divFix (f : Fixes) : DivFix := ⟨f.dAll, f.dConst, f.dCdiv⟩

/-- common prefix of every line: `<variant> <plat> <constp> <fixes> <base> <sg> <w>` -/
def parseCommon (v p cp fx base sg w : String) : Option (Cfg × Fixes × Bool × Bool × Nat) :=
  match parseVariant? v, parsePlat? p, parseConstp? cp, parseFixes? fx, parseBool? base, parseBool? sg, parseNat? w with
  | some v, some p, some cp, some fx, some base, some sg, some w =>
    if 2 ≤ w ∧ w ≤ 4096 ∧ 2 ≤ p.wint ∧ p.wint ≤ 4096 ∧ p.wl ≤ 4096 ∧ p.wll ≤ 4096 then
      some ({ V := v, P := p, cp := cp, narrowFixed := fx.narrow, divFixed := fx.div }, fx, base, sg, w)
    else none
  | _, _, _, _, _, _, _ => none

def handle : List String → String
  -- raw helper: result and flag
  | ["helper", v, p, cp, fx, base, sg, w, op, const, a, b] =>
    match parseCommon v p cp fx base sg w, parseOp? op, parseBool? const, parseInt? a, parseInt? b with
    | some (C, _, base, sg, w), some op, some const, some a, some b =>
      if InR sg w a ∧ InR sg w b then
        renderHelper (if base then helper C.V C.P C.divFixed sg w op const C.cp a b
                      else binop C.V C.P C.narrowFixed C.divFixed sg w op const C.cp a b)
      else "bad-op"
    | _, _, _, _, _ => "bad-op"
  | ["lshift", v, p, cp, fx, base, sg, w, a, b] =>
    match parseCommon v p cp fx base sg w, parseInt? a, parseInt? b with
    | some (C, _, _, sg, w), some a, some b =>
      if InR sg w a ∧ InR sg w b then renderHelper (lshift C.P sg w a b) else "bad-op"
    | _, _, _ => "bad-op"
  | ["negmacro", p, w, x] =>
    match parsePlat? p, parseNat? w, parseInt? x with
    | some p, some w, some x =>
      if 2 ≤ w ∧ w ≤ p.wl ∧ p.wl ≤ 4096 ∧ InR true w x then
        (if unaryNegWouldOverflow p x then "ok 1" else "ok 0")
      else "bad-op"
    | _, _, _ => "bad-op"
  -- emitted statements
  | ["binop", v, p, cp, fx, base, sg, w, op, const, a, b] =>
    match parseCommon v p cp fx base sg w, parseBOp? op, parseBool? const, parseInt? a, parseInt? b with
    | some (C, _, base, sg, w), some op, some const, some a, some b =>
      if InR sg w a ∧ InR sg w b then (emitBinop C base sg w op const a b).render else "bad-op"
    | _, _, _, _, _ => "bad-op"
  | ["neg", v, p, cp, fx, base, sg, w, x] =>
    match parseCommon v p cp fx base sg w, parseInt? x with
    | some (C, fx, base, sg, w), some x =>
      if InR sg w x then (emitNeg C fx.neg base sg w x).render else "bad-op"
    | _, _ => "bad-op"
  | ["floordiv", v, p, cp, fx, base, sg, w, cdivision, const, a, b] =>
    match parseCommon v p cp fx base sg w, parseBool? cdivision, parseBool? const, parseInt? a, parseInt? b with
    | some (C, fx, _, sg, w), some cd, some const, some a, some b =>
      if InR sg w a ∧ InR sg w b then (emitFloorDiv C.P fx.divFix sg w cd const a b).render else "bad-op"
    | _, _, _, _, _ => "bad-op"
  | ["folddiv", v, p, cp, fx, base, sg, w, cdivision, a, b, c, d] =>
    match parseCommon v p cp fx base sg w, parseBool? cdivision, parseInt? a, parseInt? b, parseInt? c, parseInt? d with
    | some (C, fx, base, sg, w), some cd, some a, some b, some c, some d =>
      if InR sg w a ∧ InR sg w b ∧ InR sg w c ∧ InR sg w d then
        (emitFoldThroughDiv C fx.divFix fx.scope base sg w cd a b c d).render
      else "bad-op"
    | _, _, _, _, _, _ => "bad-op"
  | "tree" :: v :: p :: cp :: fx :: base :: sg :: w :: fold :: toks =>
    match parseCommon v p cp fx base sg w, parseBool? fold, parseExpr 64 toks with
    | some (C, _, base, sg, w), some fold, some (e, []) =>
      if e.leavesIn sg w then
        (if fold then emitFold C base sg w e else emitNoFold C base sg w e).render
      else "bad-op"
    | _, _, _ => "bad-op"
  | _ => "bad-op"

end CyVerif.C04

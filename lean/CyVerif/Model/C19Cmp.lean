import CyVerif.Model.Util
/-!
Model for property C19, parts 2 and 3.

Part 2: `ExprNodes.PrimaryCmpNode.generate_evaluation_code` /
`CascadedCmpNode.generate_evaluation_code` — evaluation scheme of `e0 op1 e1 op2 e2 …`
against the Python language reference (6.10: `a op1 b op2 c` is `a op1 b and b op2 c`
with `b` evaluated once; the value is the result object of the deciding comparison).

Part 3: `Optimize.FlattenInListTransform` — `x in (a1, …, an)` as an or-chain of equality
tests, against CPython's `tuple.__contains__` / `list.__contains__`
(`PyObject_RichCompareBool(item, x, Py_EQ)`: identity first, then `item == x`).

Operands, comparison methods and truth tests are arbitrary (possibly raising) functions of
a `World`; every call is recorded in an event log.
-/
namespace CyVerif.C19

abbrev Val := Nat

inductive Ev where
  | E (leaf : Nat)              -- operand expression `leaf` evaluated
  | C (op : Nat) (a b : Val)    -- rich comparison `a op b` called
  | T (v : Val)                 -- truth value of `v` taken
  deriving DecidableEq, Repr

inductive Out (α : Type) where
  | ok (v : α)
  | raise (e : Nat)
  deriving DecidableEq, Repr

structure World where
  ev : Nat → Out Val
  cmp : Nat → Val → Val → Out Val
  truth : Val → Out Bool
  same : Val → Val → Bool        -- object identity

/-- final outcome of an expression -/
inductive Fin where
  | val (v : Val)       -- a Python object
  | bool (b : Bool)     -- a C truth value
  | raise (e : Nat)
  | raiseDD (e : Nat)   -- the exception propagates, but a result object has been DECREF'ed twice
  | ub                  -- execution continues with an exception pending (behaviour undefined)
  deriving DecidableEq, Repr

abbrev Log := List Ev

/-! ### part 2: cascaded comparisons -/

/-- Python reference, value context; `a` is the already evaluated left operand -/
def pyLinks (W : World) : Val → List (Nat × Nat) → Log → Log × Fin
  | _, [], log => (log, .ub)      -- a comparison has at least one link (never reached)
  | a, (op, leaf) :: rest, log =>
      match W.ev leaf with
      | .raise e => (log ++ [.E leaf], .raise e)
      | .ok b =>
        match W.cmp op a b with
        | .raise e => (log ++ [.E leaf, .C op a b], .raise e)
        | .ok r =>
          match rest with
          | [] => (log ++ [.E leaf, .C op a b], .val r)
          | _ :: _ =>
            match W.truth r with
            | .raise e => (log ++ [.E leaf, .C op a b, .T r], .raise e)
            | .ok false => (log ++ [.E leaf, .C op a b, .T r], .val r)
            | .ok true => pyLinks W b rest (log ++ [.E leaf, .C op a b, .T r])

/-- the truth test applied by an `if` / `while` / `bool()` context to the value of the chain -/
def pyToBool (W : World) : Log × Fin → Log × Fin
  | (log, .val r) =>
      match W.truth r with
      | .raise e => (log ++ [.T r], .raise e)
      | .ok t => (log ++ [.T r], .bool t)
  | x => x

/-- Python reference, truth context (`if a < b < c:`): the jump consumes the truth value of every
link, the deciding object is not tested a second time -/
def pyLinksB (W : World) : Val → List (Nat × Nat) → Log → Log × Fin
  | _, [], log => (log, .ub)
  | a, (op, leaf) :: rest, log =>
      match W.ev leaf with
      | .raise e => (log ++ [.E leaf], .raise e)
      | .ok b =>
        match W.cmp op a b with
        | .raise e => (log ++ [.E leaf, .C op a b], .raise e)
        | .ok r =>
          match W.truth r with
          | .raise e => (log ++ [.E leaf, .C op a b, .T r], .raise e)
          | .ok false => (log ++ [.E leaf, .C op a b, .T r], .bool false)
          | .ok true =>
            match rest with
            | [] => (log ++ [.E leaf, .C op a b, .T r], .bool true)
            | _ :: _ => pyLinksB W b rest (log ++ [.E leaf, .C op a b, .T r])

def pyChain (W : World) (boolCtx : Bool) (first : Nat) (links : List (Nat × Nat)) : Log × Fin :=
  match W.ev first with
  | .raise e => ([.E first], .raise e)
  | .ok a => if boolCtx then pyLinksB W a links [.E first] else pyLinks W a links [.E first]

/-- `generate_operation_code`: value context gives the object, truth context
(`__Pyx_PyObject_RichCompareBool`) compares, tests the truth and checks both for errors -/
def cyOper (W : World) (boolCtx : Bool) (op : Nat) (a b : Val) (log : Log) : Log × Fin :=
  match W.cmp op a b with
  | .raise e => (log ++ [.C op a b], .raise e)
  | .ok r =>
    if boolCtx then
      match W.truth r with
      | .raise e => (log ++ [.C op a b, .T r], .raise e)
      | .ok t => (log ++ [.C op a b, .T r], .bool t)
    else (log ++ [.C op a b], .val r)

/-- `CascadedCmpNode.generate_evaluation_code(code, result, operand1)`:
`if (IsTrue(result)) { DECREF(result); evaluate operand2; result = operand1 op operand2; cascade… }`.
`checked = false` is the source as found: a raising truth test (`-1`) counts as true.
`clears = false` is the source as found: the temporary keeps the pointer after the DECREF, so an
exception raised by the evaluation of `operand2` makes the error exit DECREF the object again. -/
def cyCascade (checked clears : Bool) (W : World) (boolCtx : Bool) :
    Log × Fin → Val → List (Nat × Nat) → Log × Fin
  | res, _, [] => res
  | (log, .val r), a, (op, leaf) :: rest =>
      match W.truth r with
      | .raise e => if checked then (log ++ [.T r], .raise e) else (log ++ [.T r], .ub)
      | .ok false => (log ++ [.T r], .val r)
      | .ok true =>
        match W.ev leaf with
        | .raise e => (log ++ [.T r, .E leaf], if clears then .raise e else .raiseDD e)
        | .ok b => cyCascade checked clears W boolCtx (cyOper W boolCtx op a b (log ++ [.T r, .E leaf])) b rest
  | (log, .bool false), _, _ :: _ => (log, .bool false)
  | (log, .bool true), a, (op, leaf) :: rest =>
      match W.ev leaf with
      | .raise e => (log ++ [.E leaf], .raise e)
      | .ok b => cyCascade checked clears W boolCtx (cyOper W boolCtx op a b (log ++ [.E leaf])) b rest
  | res, _, _ :: _ => res      -- error exit

/-- `PrimaryCmpNode.generate_evaluation_code` -/
def cyChain (checked clears : Bool) (W : World) (boolCtx : Bool) (first : Nat) (links : List (Nat × Nat)) : Log × Fin :=
  match W.ev first with
  | .raise e => ([.E first], .raise e)
  | .ok a =>
    match links with
    | [] => ([.E first], .ub)
    | (op, leaf) :: rest =>
      match W.ev leaf with
      | .raise e => ([.E first, .E leaf], .raise e)
      | .ok b => cyCascade checked clears W boolCtx (cyOper W boolCtx op a b [.E first, .E leaf]) b rest

/-! ### part 3: `x in (a1, …, an)` -/

def opEQ : Nat := 2
def opNE : Nat := 3

/-- evaluate operand expressions left to right -/
def evalLeaves (W : World) : List Nat → Log → List Val → Log × Out (List Val)
  | [], log, acc => (log, .ok acc.reverse)
  | l :: ls, log, acc =>
      match W.ev l with
      | .raise e => (log ++ [.E l], .raise e)
      | .ok v => evalLeaves W ls (log ++ [.E l]) (v :: acc)

/-- CPython `tuple.__contains__`: `PyObject_RichCompareBool(item, x, Py_EQ)` per item -/
def pyContains (W : World) (x : Val) : List Val → Log → Log × Fin
  | [], log => (log, .bool false)
  | a :: rest, log =>
      if W.same a x then (log, .bool true)
      else
        match W.cmp opEQ a x with
        | .raise e => (log ++ [.C opEQ a x], .raise e)
        | .ok r =>
          match W.truth r with
          | .raise e => (log ++ [.C opEQ a x, .T r], .raise e)
          | .ok true => (log ++ [.C opEQ a x, .T r], .bool true)
          | .ok false => pyContains W x rest (log ++ [.C opEQ a x, .T r])

def negFin : Log × Fin → Log × Fin
  | (log, .bool b) => (log, .bool !b)
  | r => r

/-- CPython: `x [not] in (a1, …, an)` — left operand, then the display, then the search -/
def pyIn (W : World) (notIn : Bool) (x : Nat) (items : List Nat) : Log × Fin :=
  match W.ev x with
  | .raise e => ([.E x], .raise e)
  | .ok xv =>
    match evalLeaves W items [.E x] [] with
    | (log, .raise e) => (log, .raise e)
    | (log, .ok vs) => if notIn then negFin (pyContains W xv vs log) else pyContains W xv vs log

/-- the two sites at which `FlattenInListTransform` exists in two variants -/
structure InVariant where
  lhsFirst : Bool      -- the left operand is evaluated before the items (repaired) / after them (as found)
  itemFirst : Bool     -- tests are `item == x` (repaired) / `x == item` (as found)
  deriving DecidableEq, Repr

/-- the flattened chain: `x == a1 or x == a2 …` resp. `x != a1 and x != a2 …`, each test coerced to a C truth value -/
def cyFlat (V : InVariant) (W : World) (notIn : Bool) (x : Val) : List Val → Log → Log × Fin
  | [], log => (log, .bool notIn)
  | a :: rest, log =>
      let op := if notIn then opNE else opEQ
      let l := if V.itemFirst then a else x
      let r := if V.itemFirst then x else a
      match W.cmp op l r with
      | .raise e => (log ++ [.C op l r], .raise e)
      | .ok res =>
        match W.truth res with
        | .raise e => (log ++ [.C op l r, .T res], .raise e)
        | .ok t =>
          if t == notIn then cyFlat V W notIn x rest (log ++ [.C op l r, .T res])
          else (log ++ [.C op l r, .T res], .bool !notIn)

/-- `FlattenInListTransform.visit_PrimaryCmpNode` (all items non-simple: each gets a temp) -/
def cyIn (V : InVariant) (W : World) (notIn : Bool) (x : Nat) (items : List Nat) : Log × Fin :=
  if V.lhsFirst then
    match W.ev x with
    | .raise e => ([.E x], .raise e)
    | .ok xv =>
      match evalLeaves W items [.E x] [] with
      | (log, .raise e) => (log, .raise e)
      | (log, .ok vs) => cyFlat V W notIn xv vs log
  else
    match evalLeaves W items [] [] with
    | (log, .raise e) => (log, .raise e)
    | (log, .ok vs) =>
      match W.ev x with
      | .raise e => (log ++ [.E x], .raise e)
      | .ok xv => cyFlat V W notIn xv vs (log ++ [.E x])

end CyVerif.C19

import CyVerif.Model.Util
/-!
Model of the C code Cython generates for `a // b` and `a % b` on C integer
operands (`Cython/Compiler/ExprNodes.py`: `DivNode`, `ModNode`,
`generate_div_warning_code`; `Cython/Utility/CMath.c`: `DivInt`, `ModInt`;
`Cython/Utility/Overflow.c`: `__Pyx_UNARY_NEG_WOULD_OVERFLOW`).

C values are mathematical integers (`Int`); the *result type* `T` of the
operation (Cython: widest of both operand types and `int`) is a width `w`
and a signedness.  Every C operation returns `Except String Int`: signed
arithmetic whose exact value is not representable, a zero divisor and
`MIN / -1`, `MIN % -1` are undefined behaviour (`.error kind`), unsigned
arithmetic wraps.  Nothing here is specific to a width: `w` and the width
`wl` of C `long` are parameters.
-/
namespace CyVerif.C03

/-- Outcome of the generated statement: a C value, a Python exception, or C undefined behaviour. -/
inductive Out where
  | ok (v : Int)
  | err (e : String)
  | ub (k : String)
  deriving DecidableEq, Repr

def Out.render : Out → String
  | .ok v => s!"ok {v}"
  | .err e => s!"err {e}"
  | .ub k => s!"ub {k}"

/-- A C integer type: width in bits and signedness. -/
structure CTy where
  w : Nat
  signed : Bool
  deriving DecidableEq, Repr

def CTy.min (t : CTy) : Int := if t.signed then -(2 ^ (t.w - 1)) else 0
def CTy.max (t : CTy) : Int := if t.signed then 2 ^ (t.w - 1) - 1 else 2 ^ t.w - 1

/-- `x` is a value of type `t`. -/
def CTy.InRange (t : CTy) (x : Int) : Prop := t.min ≤ x ∧ x ≤ t.max

instance (t : CTy) (x : Int) : Decidable (t.InRange x) := by unfold CTy.InRange; infer_instance

/-- Result of a C arithmetic operator (`+ - *`) in type `t` whose exact value is `x`:
signed overflow is UB, unsigned arithmetic is modulo `2^w`. -/
def arith (t : CTy) (x : Int) : Except String Int :=
  if t.signed then (if t.InRange x then .ok x else .error "signedOverflow")
  else .ok (x % 2 ^ t.w)

/-- C `a / b` in type `t` (C99 6.5.5: truncation; zero divisor and an unrepresentable quotient are UB). -/
def cdivC (t : CTy) (a b : Int) : Except String Int :=
  if b = 0 then .error "divByZero"
  else if t.signed ∧ a = t.min ∧ b = -1 then .error "divOverflow"
  else .ok (Int.tdiv a b)

/-- C `a % b` in type `t` (C11 6.5.5p6: if `a / b` is not representable, `a % b` is UB as well). -/
def cmodC (t : CTy) (a b : Int) : Except String Int :=
  if b = 0 then .error "divByZero"
  else if t.signed ∧ a = t.min ∧ b = -1 then .error "divOverflow"
  else .ok (Int.tmod a b)

/-- C `(r ^ b) < 0` for two values of the type `t`: xor of the two's complement bit patterns,
read back in the type `t`. -/
def xorNeg (t : CTy) (r b : Int) : Bool :=
  if t.signed then decide ((BitVec.ofInt t.w r ^^^ BitVec.ofInt t.w b).toInt < 0) else false

/-- C truth value. -/
def b2i (p : Bool) : Int := if p then 1 else 0

/-- `adapt_python` of `DivInt`/`ModInt`:
`b_is_constant ? ((r != 0) & ((r < 0) ^ (b < 0))) : ((r != 0) & ((r ^ b) < 0))`. -/
def adaptPython (t : CTy) (bConst : Bool) (r b : Int) : Int :=
  if bConst then b2i (decide (r ≠ 0) && (decide (r < 0) ^^ decide (b < 0)))
  else b2i (decide (r ≠ 0) && xorNeg t r b)

/-- Value of `(T)(0 - (unsigned long long) a)`: the negation wrapped into `t` (used by the repaired helper only). -/
def wrapNeg (t : CTy) (a : Int) : Int := if a = t.min then a else -a

/-- `__Pyx_div_<T>(a, b, b_is_constant)` (`CMath.c`, section `DivInt`).
`fix = true` models the repaired helper that starts with
`if (unlikely(b == -1)) return (T)(0 - (unsigned PY_LONG_LONG)a);`. -/
def divInt (fix : Bool) (t : CTy) (bConst : Bool) (a b : Int) : Except String Int := do
  if fix && b == -1 then return wrapNeg t a
  let q ← cdivC t a b                  -- T q = a / b;
  let qb ← arith t (q * b)             -- q*b
  let r ← arith t (a - qb)             -- T r = a - q*b;
  let adapt := adaptPython t bConst r b
  arith t (q - adapt)                  -- return q - adapt_python;

/-- `__Pyx_mod_<T>(a, b, b_is_constant)` (`CMath.c`, section `ModInt`).
`fix = true` models the repaired helper that starts with `if (unlikely(b == -1)) return 0;`. -/
def modInt (fix : Bool) (t : CTy) (bConst : Bool) (a b : Int) : Except String Int := do
  if fix && b == -1 then return 0
  let r ← cmodC t a b                  -- T r = a % b;
  let adapt := adaptPython t bConst r b
  let ab ← arith t (adapt * b)         -- adapt_python * b
  arith t (r + ab)                     -- return r + adapt_python * b;

/-- `__Pyx_UNARY_NEG_WOULD_OVERFLOW(x)`:
`(((x) < 0) & ((unsigned long)(x) == 0-(unsigned long)(x)))`, `wl` = width of `unsigned long`. -/
def negWouldOverflow (wl : Nat) (x : Int) : Bool :=
  decide (x < 0) && decide (x % 2 ^ wl = (0 - x % 2 ^ wl) % 2 ^ wl)

/-- Everything that selects the generated code for one `a // b` / `a % b` expression. -/
structure Cfg where
  /-- result type of the operation (both operands are coerced to it) -/
  ty : CTy
  /-- width of C `long` (the `sizeof(T) == sizeof(long)` test and the casts in the macro) -/
  wl : Nat
  /-- the `cdivision` directive -/
  cdivision : Bool
  /-- `operand2.has_constant_result()` -/
  bConst : Bool
  /-- `false`: helpers of the pinned tree; `true`: helpers with the `b == -1` repair -/
  guardMinusOne : Bool
  /-- `false`: call-site guard of the pinned tree (`sizeof(T) == sizeof(long)`, inside the zero-check block);
  `true`: `DivNode.minus1_check` (every signed width, constant divisors too, outside the zero-check block).
  The `overflowcheck` directive is assumed off (with it the guard is also emitted under cdivision, and the
  division itself goes through the `Overflow.c` helpers, which belong to C04). -/
  guardAllWidths : Bool
  deriving DecidableEq, Repr

def toOut : Except String Int → Out
  | .ok v => .ok v
  | .error k => .ub k

/-- `DivNode.analyse_operation`: `zerodivision_check = cdivision is None and not directives['cdivision']
and (not operand2.has_constant_result() or operand2.constant_result == 0)`. -/
def Cfg.zeroCheck (c : Cfg) (b : Int) : Bool := !c.cdivision && (!c.bConst || b == 0)

/-- `DivNode.generate_evaluation_code`: `cdivision = directive or type.is_float or not type.signed`. -/
def Cfg.useC (c : Cfg) : Bool := c.cdivision || !c.ty.signed

/-- `__PYX_MIN(T)` (`Overflow.c`): `IS_UNSIGNED(T) ? 0 : 0 - HALF_MAX(T) - HALF_MAX(T)`,
`HALF_MAX(T) = ((T) 1) << (sizeof(T) * 8 - 2)`. -/
def pyxMin (t : CTy) : Int := if t.signed then 0 - 2 ^ (t.w - 2) - 2 ^ (t.w - 2) else 0

/-- `DivNode.minus1_check` for `//` with `overflowcheck` off: `type.is_int and type.signed and
(python_division or overflowcheck) and not (operand2 has an int constant_result != -1)`. -/
def Cfg.minus1Check (c : Cfg) (b : Int) : Bool :=
  c.ty.signed && !c.cdivision && !(c.bConst && b != -1)

/-- The `OverflowError("value too large to perform division")` guard of `//` (never emitted for `%`).
Old: `else if (sizeof(T) == sizeof(long) && b == -1 && __Pyx_UNARY_NEG_WOULD_OVERFLOW(a))` inside
`if self.zerodivision_check:`.  New: `[else] if (b == -1 && a == __PYX_MIN(T))` whenever `minus1_check`. -/
def Cfg.overflowGuard (c : Cfg) (a b : Int) : Bool :=
  if c.guardAllWidths then c.minus1Check b && b == -1 && a == pyxMin c.ty
  else c.zeroCheck b && c.ty.signed && c.ty.w == c.wl && b == -1 && negWouldOverflow c.wl a

/-- Generated code for `a // b` with result type `c.ty`. -/
def genDiv (c : Cfg) (a b : Int) : Out :=
  if c.zeroCheck b && b == 0 then .err "ZeroDivisionError"
  else if c.overflowGuard a b then .err "OverflowError"
  else if c.useC then toOut (cdivC c.ty a b)
  else toOut (divInt c.guardMinusOne c.ty c.bConst a b)

/-- Generated code for `a % b` with result type `c.ty` (no overflow guard for `%`). -/
def genMod (c : Cfg) (a b : Int) : Out :=
  if c.zeroCheck b && b == 0 then .err "ZeroDivisionError"
  else if c.useC then toOut (cmodC c.ty a b)
  else toOut (modInt c.guardMinusOne c.ty c.bConst a b)

def parseBool? : String → Option Bool
  | "0" => some false
  | "1" => some true
  | _ => none

/-- Line protocol: `<div|mod> w signed wl cdivision bConst guardMinusOne guardAllWidths a b`;
operands outside the type are rejected. -/
def handle : List String → String
  | [op, w, s, wl, cd, bc, fx, ga, a, b] =>
    match parseNat? w, parseBool? s, parseNat? wl, parseBool? cd, parseBool? bc, parseBool? fx, parseBool? ga,
          parseInt? a, parseInt? b with
    | some w, some s, some wl, some cd, some bc, some fx, some ga, some a, some b =>
      let c : Cfg := { ty := { w := w, signed := s }, wl := wl, cdivision := cd, bConst := bc,
                       guardMinusOne := fx, guardAllWidths := ga }
      if w < 2 ∨ ¬ c.ty.InRange a ∨ ¬ c.ty.InRange b then "bad-op"
      else if op = "div" then (genDiv c a b).render
      else if op = "mod" then (genMod c a b).render
      else "bad-op"
    | _, _, _, _, _, _, _, _, _ => "bad-op"
  | _ => "bad-op"

end CyVerif.C03

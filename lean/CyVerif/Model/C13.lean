import CyVerif.Model.C15Spec
/-!
# C13 — builtin call / method optimisations: the helpers that re-implement logic

Models (of the code as it is NOW in `Cython/Utility/StringTools.c`, `Optimize.c`,
`Builtins.c`, `TypeConversion.c`, `Compiler/Optimize.py`, `Compiler/Builtin.py`):

* `bytesSingle`  — `__Pyx_PyBytes_SingleTailmatch` index logic + bounds-checked `memcmp`
                   (`fixed = false`: `start + sub_len <= end` in `Py_ssize_t`, signed overflow = UB;
                    `fixed = true`: the repaired comparison `sub_len <= end - start`)
* `tupleLoop`    — `__Pyx_Py{Bytes,Unicode}_TailmatchTuple`
* `uniSingle`    — CPython `tailmatch()` behind `PyUnicode_Tailmatch` (ADJUST_INDICES)
* `decodeCBytes`, `decodeCString` — start/stop normalisation of `__Pyx_decode_c_bytes/_c_string`
* `substring`    — `__Pyx_PyUnicode_Substring`
Reference semantics (`py*`) are on unbounded integers and lists of code points / bytes.
-/
namespace CyVerif.C13
open CyVerif.C15 (Out adjBound)

/-- checked `Py_ssize_t` addition (`PY_SSIZE_T_MAX = M`): signed overflow is UB -/
def sadd (M a b : Int) : Out Int :=
  if -M - 1 ≤ a + b ∧ a + b ≤ M then .ok (a + b) else .ub "signedOverflow"

/-- `memcmp(mem + off, sub, |sub|) == 0`, every byte read bounds-checked against `mem` -/
def memEq (mem : List Nat) (off : Nat) : List Nat → Out Bool
  | [] => .ok true
  | c :: cs =>
    match mem[off]? with
    | none => .ub "oob"
    | some x =>
      match memEq mem (off + 1) cs with
      | .ok r => .ok (x == c && r)
      | o => o

/-- `if (end > len) end = len; else if (end < 0) end += len; if (end < 0) end = 0;` -/
def adjEnd (len e : Int) : Int :=
  let e1 := if e > len then len else if e < 0 then e + len else e
  if e1 < 0 then 0 else e1

/-- `if (start < 0) start += len; if (start < 0) start = 0;` -/
def adjStart (len s : Int) : Int :=
  let s1 := if s < 0 then s + len else s
  if s1 < 0 then 0 else s1

/-- `__Pyx_PyBytes_SingleTailmatch` after the buffer of `arg` has been obtained. -/
def bytesSingle (fixed : Bool) (M : Int) (self sub : List Nat) (start end_ dir : Int) : Out Bool :=
  let len : Int := self.length
  let sl : Int := sub.length
  let e := adjEnd len end_
  let s0 := adjStart len start
  let s := if dir > 0 then (if e - sl > s0 then e - sl else s0) else s0
  if fixed then
    if sl ≤ e - s then memEq self s.toNat sub else .ok false
  else
    match sadd M s sl with
    | .ok t => if t ≤ e then memEq self s.toNat sub else .ok false
    | .err x => .err x
    | .ub k => .ub k

/-- an element of the prefix argument: a buffer (bytes / str content) or an object of the wrong type -/
inductive Arg where
  | buf (b : List Nat)
  | bad
  deriving DecidableEq, Repr

/-- first argument of startswith/endswith: one object or a tuple of objects -/
inductive TArg where
  | one (a : Arg)
  | tup (as : List Arg)
  deriving Repr

/-- `for (i = 0; i < count; i++) { result = single(item_i); if (result) return result; } return 0;`
(-1 = error is truthy and returned at once) -/
def tupleLoop (f : Arg → Out Bool) : List Arg → Out Bool
  | [] => .ok false
  | a :: as =>
    match f a with
    | .ok false => tupleLoop f as
    | r => r

def bytesArg (fixed : Bool) (M : Int) (self : List Nat) (start end_ dir : Int) : Arg → Out Bool
  | .buf b => bytesSingle fixed M self b start end_ dir
  | .bad => .err "TypeError"

/-- `__Pyx_PyBytes_Tailmatch` -/
def bytesTail (fixed : Bool) (M : Int) (self : List Nat) (a : TArg) (start end_ dir : Int) : Out Bool :=
  match a with
  | .one x => bytesArg fixed M self start end_ dir x
  | .tup xs => tupleLoop (bytesArg fixed M self start end_ dir) xs

/-- CPython `tailmatch()` (Objects/unicodeobject.c) reached through `PyUnicode_Tailmatch`:
`ADJUST_INDICES(start, end, len); end -= sublen; if (end < start) return 0; if (sublen == 0) return 1;
offset = direction > 0 ? end : start; compare sublen code points at offset`. -/
def uniSingle (self sub : List Nat) (start end_ dir : Int) : Bool :=
  let len : Int := self.length
  let sl : Int := sub.length
  let e := if end_ > len then len else if end_ < 0 then (if end_ + len < 0 then 0 else end_ + len) else end_
  let s := if start < 0 then (if start + len < 0 then 0 else start + len) else start
  let e' := e - sl
  if e' < s then false
  else if sl = 0 then true
  else
    let off := if dir > 0 then e' else s
    (self.drop off.toNat).take sub.length == sub

def uniArg (self : List Nat) (start end_ dir : Int) : Arg → Out Bool
  | .buf b => .ok (uniSingle self b start end_ dir)
  | .bad => .err "TypeError"

/-- `__Pyx_PyUnicode_Tailmatch` -/
def uniTail (self : List Nat) (a : TArg) (start end_ dir : Int) : Out Bool :=
  match a with
  | .one x => uniArg self start end_ dir x
  | .tup xs => tupleLoop (uniArg self start end_ dir) xs

/-! ### reference semantics of `s.startswith(p, start, end)` / `s.endswith(p, start, end)` -/

/-- window `[a, b)` examined by CPython: `a` wrapped once and clamped at 0 (NOT clamped above),
`b` wrapped once and clamped into `[0, len]`; a match needs `a ≤ b` even for the empty prefix. -/
def pyTail1 (self sub : List Nat) (start end_ dir : Int) : Bool :=
  let n : Int := self.length
  let a := if start < 0 then max (start + n) 0 else start
  let b := if end_ < 0 then max (end_ + n) 0 else min end_ n
  let win := (self.drop a.toNat).take (b - a).toNat
  decide (a ≤ b) && (if dir > 0 then sub.isSuffixOf win else sub.isPrefixOf win)

/-- tuple argument: items are tried in order; the first item that is of the wrong type raises
`TypeError`, the first that matches gives `True`; otherwise `False`. -/
def pyTail (self : List Nat) (a : TArg) (start end_ dir : Int) : Out Bool :=
  let one : Arg → Out Bool
    | .buf b => .ok (pyTail1 self b start end_ dir)
    | .bad => .err "TypeError"
  match a with
  | .one x => one x
  | .tup xs =>
    match xs.find? (fun x => match x with | .buf b => pyTail1 self b start end_ dir | .bad => true) with
    | none => .ok false
    | some (.buf _) => .ok true
    | some .bad => .err "TypeError"

/-! ### decode: start/stop normalisation -/

/-- `__Pyx_decode_c_bytes(cstring, length, start, stop, …)`: `none` = the empty string is returned
without touching memory, `some (off, n)` = `n` bytes at `cstring + off` are decoded. -/
def decodeCBytes (length start stop : Int) : Option (Int × Int) :=
  let start := if start < 0 then (if start + length < 0 then 0 else start + length) else start
  let stop := if stop < 0 then stop + length else stop
  let stop := if stop > length then length else stop
  if stop ≤ start then none else some (start, stop - start)

/-- `__Pyx_decode_c_string(cstring, start, stop, …)`: `strlen` only if an index is negative,
`stop` is NOT clamped (C contract: the caller guarantees `stop ≤ strlen`). -/
def decodeCString (M slen start stop : Int) : Out (Option (Int × Int)) :=
  if start < 0 ∨ stop < 0 then
    if slen > M then .err "OverflowError"
    else
      let start := if start < 0 then (if start + slen < 0 then 0 else start + slen) else start
      let stop := if stop < 0 then stop + slen else stop
      .ok (if stop ≤ start then none else some (start, stop - start))
  else
    .ok (if stop ≤ start then none else some (start, stop - start))

/-- `__Pyx_PyUnicode_Substring(text, start, stop)`: `(off, n)` of the copied code points
(`none` = empty string, `some (0, len)` = the same object) -/
def substring (length start stop : Int) : Option (Int × Int) :=
  let start := if start < 0 then (if start + length < 0 then 0 else start + length) else start
  let stop := if stop < 0 then stop + length else if stop > length then length else stop
  if stop ≤ start then none else some (start, stop - start)

/-- Python `o[start:stop]` on a sequence of length `len` (PySlice_AdjustIndices, step 1):
offset and length of the selected window, `none` if empty -/
def pyWindow (len start stop : Int) : Option (Int × Int) :=
  let a := adjBound len 1 start
  let b := adjBound len 1 stop
  if a < b then some (a, b - a) else none

end CyVerif.C13

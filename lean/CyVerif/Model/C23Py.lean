import CyVerif.Model.C23
/-!
Model of CPython 3.12's generator object (Objects/genobject.c: `gen_send_ex2`, `gen_send_ex`, `gen_iternext`,
`_gen_throw`, `gen_close_iter`, `gen_close`, `_PyGen_Finalize`, `gen_dealloc`, `_PyGen_yf`) and of the part of the
evaluation loop that implements `yield from` (Python/bytecodes.c: `SEND`, `YIELD_VALUE`, `CLEANUP_THROW`,
`END_SEND`, and the implicit PEP 479 handler `CALL_INTRINSIC_1 STOPITERATION_ERROR` around the body).

The sub-iterator of a `yield from` lives on the value stack of the suspended frame (`yf`); it is popped (and its
reference dropped) when the loop ends or an exception unwinds through it.  `CLEANUP_THROW` turns a StopIteration
that arrives at the `yield from` — from the delegate or thrown in from outside — into the value of the expression.
The model records in `devs` when it passes through a situation in which Cython's wrapper is known to differ.
-/
namespace CyVerif.C23

inductive FState where
  | created | suspended | executing | cleared
  deriving DecidableEq, Repr

inductive PyObj (σ ι : Type) where
  | null
  | opq (o : ι)
  | gen (state : FState) (st : σ) (yf : PyObj σ ι)

namespace PyObj
variable {σ ι : Type}
def yieldfrom : PyObj σ ι → PyObj σ ι
  | .gen _ _ yf => yf
  | _ => .null
end PyObj

section
variable {σ ι : Type} (coro : Bool) (B : Body σ ι) (O : OpqSem ι)

abbrev PyRec (σ ι : Type) := PyObj σ ι → Req → R (PyObj σ ι)

def pyDiv (l : List Ev) (d : List Dev) : R (PyObj σ ι) := ⟨.div, .null, l, d⟩

def pyMkSub : Desc σ ι → PyObj σ ι
  | .gen s0 => .gen .created s0 .null
  | .opq o => .opq o

/-- `_PyGen_yf`: only a frame suspended in `yield from` exposes its sub-iterator -/
def pyYf : FState → PyObj σ ι → PyObj σ ι
  | .suspended, yf => yf
  | _, _ => .null

def pyProbe : PyObj σ ι → Out
  | .gen fs _ yf => .probed (fs = .executing) (fs = .cleared) (match pyYf fs yf with | .null => true | _ => false)
  | _ => .probed false true true

def pyMethod (rec : PyRec σ ι) (obj : PyObj σ ι) : Op → Out × PyObj σ ι × List Ev × List Dev
  | .probe => (pyProbe obj, obj, [], [])
  | op => let r := rec obj (reqOfOp op); (outOfOp op r.out, r.obj, r.log, r.devs)

/-- the frame runs body code (no sub-iterator on the stack) until it yields or exits -/
def pyBody (rec : PyRec σ ι) (st : σ) (inp : Input) : R (PyObj σ ι) :=
  let ts := B.resume st inp
  R.pre (tags ts.1) [] <| match ts.2 with
  | .yield v s => ⟨.next v, .gen .suspended s .null, [], []⟩
  | .ret v => ⟨.ret v, .gen .cleared st .null, [], []⟩
  | .raise e => ⟨.err (pep479 e), .gen .cleared st .null, [], []⟩
  | .delegate d s =>
    -- GET_YIELD_FROM_ITER; LOAD_CONST None; SEND
    R.bind .null ((rec (pyMkSub d) .next).mapOut statusFromResult) fun o sub =>
      match o with
      | .next v => ⟨.next v, .gen .suspended s sub, [], []⟩
      | .ret v =>       -- END_SEND pops the exhausted iterator
        R.bind .null (rec sub .del) fun _ _ => rec (.gen .executing s .null) (.cont (.send v))
      | .err e =>       -- unwinding pops it
        R.bind .null (rec sub .del) fun _ _ => rec (.gen .executing s .null) (.cont (.throw e))
      | .div => pyDiv [] []
  | .reenter op s =>
    match op with
    | .probe => rec (.gen .executing s .null) (.cont (.reent (pyProbe (.gen .executing st .null : PyObj σ ι))))
    | _ =>
      R.bind .null (rec (.gen .executing st .null) (reqOfOp op)) fun o _ =>
        rec (.gen .executing s .null) (.cont (.reent (outOfOp op o)))

/-- the `yield from` loop ends: pop the sub-iterator (drop the reference), continue the body with the value of the
expression / the exception -/
def pyLeave (rec : PyRec σ ι) (st : σ) (sub : PyObj σ ι) (inp : Input) : R (PyObj σ ι) :=
  match sub with
  | .null => pyBody B rec st inp
  | _ => R.bind .null (rec sub .del) fun _ _ => pyBody B rec st inp

/-- resume a frame (`_PyEval_EvalFrame` from `gen_send_ex2`) that may be suspended inside `yield from` -/
def pyEval (rec : PyRec σ ι) (st : σ) (yf : PyObj σ ι) (inp : Input) : R (PyObj σ ι) :=
  match yf with
  | .null => pyBody B rec st inp
  | _ =>
    match inp with
    | .throw e =>
      -- exception table entry of the YIELD_VALUE inside the loop: CLEANUP_THROW
      match e.isStop with
      | some x => R.pre [] [.stopIntoDelegation] (pyLeave B rec st yf (.send x))
      | none => pyLeave B rec st yf (.throw e)
    | .send v =>
      -- RESUME; JUMP_BACKWARD_NO_INTERRUPT; SEND
      match yf with
      | .opq o =>
        let c := opqSend O o v
        R.pre (tags c.1) [] <| match c.2.1 with
        | .val x => ⟨.next x, .gen .suspended st (.opq c.2.2), [], []⟩
        | .exc e => pyLeave B rec st (.opq c.2.2) (inputOfExc e)
      | _ =>
        R.bind .null (rec yf (.send v)) fun o sub =>
          match o with
          | .next x => ⟨.next x, .gen .suspended st sub, [], []⟩
          | .ret x => pyLeave B rec st sub (.send x)
          | .err e =>
            match e.isStop with
            | some x => R.pre [] [.stopIntoDelegation] (pyLeave B rec st sub (.send x))
            | none => pyLeave B rec st sub (.throw e)
          | .div => pyDiv [] []
    | .reent _ => pyBody B rec st inp

/-- `gen_send_ex2(gen, arg, &result, exc, closing)`; `inp = throw e` stands for `exc = 1` with `e` pending -/
def pySendEx2 (rec : PyRec σ ι) (fs : FState) (st : σ) (yf : PyObj σ ι) (inp : Input) (closing : Bool) : R (PyObj σ ι) :=
  match fs with
  | .created =>
    match inp with
    | .send v =>
      if v = 0 then pyBody B rec st inp
      else ⟨.err (.typeError .justStarted), .gen fs st yf, [], [.sendNonNoneUnstarted]⟩
    | .throw e =>
      -- the exception is raised at the first instruction, outside every handler of the code object
      ⟨.err e, .gen .cleared st .null, [], if e.isStop.isSome then [.throwStopUnstarted] else []⟩
    | .reent _ => pyBody B rec st inp
  | .executing => ⟨.err (.valueError .alreadyExecuting), .gen fs st yf, [], []⟩
  | .cleared =>
    if coro && !closing then ⟨.err (.runtimeError .reuse), .gen fs st yf, [], []⟩
    else match inp with
      | .throw e => ⟨.err e, .gen fs st yf, [], []⟩
      | _ => ⟨.ret 0, .gen fs st yf, [], []⟩
  | .suspended => pyEval B O rec st yf inp

/-- `gen_close_iter`: status `err e` = close() raised `e` -/
def pyCloseIter (rec : PyRec σ ι) (yf : PyObj σ ι) : R (PyObj σ ι) :=
  match yf with
  | .opq o =>
    match O.close o with
    | none => ⟨.ret 0, yf, [], []⟩
    | some c => ⟨(match c.2.1 with | some e => .err e | none => .ret 0), .opq c.2.2, tags c.1, []⟩
  | _ => (rec yf .close).mapOut closeStatus

/-- `_gen_throw(gen, close_on_genexit = 1, typ, val, tb)` -/
def pyThrow (rec : PyRec σ ι) (fs : FState) (st : σ) (yf : PyObj σ ι) (e : Exc) : R (PyObj σ ι) :=
  match pyYf fs yf with
  | .null => (pySendEx2 coro B O rec fs st yf (.throw e) false).mapOut methodReturn      -- throw_here
  | y =>
    if e = .generatorExit then
      -- gen_close_iter; on error gen_send_ex(gen, Py_None, 1, 0) with that error, else throw_here
      (R.bind .null (pyCloseIter O rec y) fun o sub =>
        pySendEx2 coro B O rec .suspended st sub (.throw (excOfStatus e o)) false).mapOut methodReturn
    else match y with
      | .opq o =>
        match O.throw o with
        | none => (pySendEx2 coro B O rec .suspended st y (.throw e) false).mapOut methodReturn
        | some f =>
          let c := f e
          R.pre (tags c.1) [] <| match c.2.1 with
          | .val x => ⟨.next x, .gen .suspended st (.opq c.2.2), [], []⟩
          | .exc e' =>
            -- gen_send_ex(gen, Py_None, 1, 0): CLEANUP_THROW on the exception left by the delegate
            (pyLeave B rec st (.opq c.2.2) (inputOfExc e')).mapOut methodReturn
      | _ =>
        R.bind .null (rec y (.throw e)) fun o sub =>
          match o with
          | .next x => ⟨.next x, .gen .suspended st sub, [], []⟩
          | .ret x => (pyLeave B rec st sub (.send x)).mapOut methodReturn
          | .err e' => (pyLeave B rec st sub (inputOfExc e')).mapOut methodReturn
          | .div => pyDiv [] []

/-- the end of `gen_close`: what the frame answered to GeneratorExit -/
def pyCloseResult (r : R (PyObj σ ι)) : R (PyObj σ ι) :=
  match r.out with
  | .div => r
  | .next _ => { r with out := .err (.runtimeError .ignoredExit) }
  | .ret v => { r with out := .ret 0, devs := r.devs ++ (if v = 0 then [] else [.closeReturnsValue]) }
  | .err e => if e = .generatorExit ∨ e.isStop.isSome then { r with out := .ret 0 } else r

/-- `gen_close` (`ret 0` = returns None) -/
def pyClose (rec : PyRec σ ι) (fs : FState) (st : σ) (yf : PyObj σ ι) : R (PyObj σ ι) :=
  match fs with
  | .created => ⟨.ret 0, .gen .cleared st .null, [], []⟩
  | .cleared => ⟨.ret 0, .gen fs st yf, [], []⟩
  | _ =>
    pyCloseResult <|
      match pyYf fs yf with
      | .null => pySendEx2 coro B O rec fs st yf (.throw .generatorExit) true
      | y =>
        R.bind .null (pyCloseIter O rec y) fun o sub =>
          pySendEx2 coro B O rec fs st sub (.throw (excOfStatus .generatorExit o)) true

/-- `gen_dealloc`: `_PyGen_Finalize`, then the frame is cleared -/
def pyDel (rec : PyRec σ ι) (fs : FState) (st : σ) (yf : PyObj σ ι) : R (PyObj σ ι) :=
  match fs with
  | .cleared => R.bind .null (rec yf .del) fun _ _ => ⟨.ret 0, .null, [], []⟩
  | _ =>
    R.bind .null ((pyClose coro B O rec fs st yf).mapOut closeStatus) fun o g =>
      R.pre (match o with | .err e => [Ev.unraisable e] | _ => []) [] <|
        R.bind .null (rec g.yieldfrom .del) fun _ _ => ⟨.ret 0, .null, [], []⟩

def pyF (rec : PyRec σ ι) : PyObj σ ι → Req → R (PyObj σ ι)
  | .null, _ => ⟨.ret 0, .null, [], []⟩
  | .opq o, .next => let c := O.next o; ⟨iresToRes c.2.1, .opq c.2.2, tags c.1, []⟩
  | .opq _, .del => ⟨.ret 0, .null, [], []⟩
  | .opq o, _ => ⟨.err .attributeError, .opq o, [], []⟩
  | .gen fs st yf, .send v => pySendEx2 coro B O rec fs st yf (.send v) false
  | .gen fs st yf, .next => (pySendEx2 coro B O rec fs st yf (.send 0) false).mapOut methodReturn     -- gen_iternext
  | .gen fs st yf, .throw e => pyThrow coro B O rec fs st yf e
  | .gen fs st yf, .close => (pyClose coro B O rec fs st yf).mapOut closeStatus
  | .gen fs st yf, .del => pyDel coro B O rec fs st yf
  | .gen _ st _, .cont inp => pyBody B rec st inp

def pyRun : Nat → PyObj σ ι → Req → R (PyObj σ ι)
  | 0 => fun _ _ => pyDiv [] []
  | n + 1 => pyF coro B O (pyRun n)

end
end CyVerif.C23

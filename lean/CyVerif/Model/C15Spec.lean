import CyVerif.Model.Util
/-!
# C15 — reference semantics (`PySpec`) of indexing and slicing of Python sequences

Containers are `List α` (α = element identity: object, code point or byte).
Everything here is on unbounded integers; it is the meaning of "what CPython
does" for `list`/`tuple`/`str`/`bytes`/`bytearray` and is tied to CPython 3.12
by the differential run (ops `py*` of the driver).

* `pyGet/pySet/pyDel`   — `o[i]`, `o[i] = v`, `del o[i]`: a negative index is
  wrapped ONCE by the length, anything outside `0 ≤ j < len` is `IndexError`.
* `adjBound`, `sliceLen` — transcription of CPython `PySlice_AdjustIndices`
  (Objects/sliceobject.c); `unpackStart/unpackStop` are `PySlice_Unpack`
  composed with it for `None` bounds.
* `pySlice`             — `o[start:stop:step]`.
* `pySetSlice/pyDelSlice` — `o[start:stop] = vs`, `del o[start:stop]`
  (`list_ass_slice`: `ihigh` raised to `ilow`).
-/
namespace CyVerif.C15

/-- Outcome of a modelled operation: a value, a Python exception, or C undefined behaviour. -/
inductive Out (α : Type) where
  | ok (v : α)
  | err (e : String)
  | ub (k : String)
  deriving DecidableEq, Repr

def Out.bind {α β} (x : Out α) (f : α → Out β) : Out β :=
  match x with
  | .ok v => f v
  | .err e => .err e
  | .ub k => .ub k

def Out.isUB {α} : Out α → Bool
  | .ub _ => true
  | _ => false

/-- normalised index: wrap a negative index once, `none` if outside `0 ≤ j < n` -/
def pyNorm (n : Nat) (i : Int) : Option Nat :=
  let j := if i < 0 then i + n else i
  if 0 ≤ j ∧ j < n then some j.toNat else none

def pyGet {α} (l : List α) (i : Int) : Out α :=
  match pyNorm l.length i with
  | some k =>
    match l[k]? with
    | some x => .ok x
    | none => .err "IndexError"
  | none => .err "IndexError"

def pySet {α} (l : List α) (i : Int) (v : α) : Out (List α) :=
  match pyNorm l.length i with
  | some k => .ok (l.set k v)
  | none => .err "IndexError"

def pyDel {α} (l : List α) (i : Int) : Out (List α) :=
  match pyNorm l.length i with
  | some k => .ok (l.eraseIdx k)
  | none => .err "IndexError"

/-- One bound of `PySlice_AdjustIndices(length, &start, &stop, step)`:
```
if (*b < 0) { *b += length; if (*b < 0) *b = (step < 0) ? -1 : 0; }
else if (*b >= length) *b = (step < 0) ? length - 1 : length;
``` -/
def adjBound (len step b : Int) : Int :=
  if b < 0 then
    let b' := b + len
    if b' < 0 then (if step < 0 then -1 else 0) else b'
  else if b ≥ len then (if step < 0 then len - 1 else len)
  else b

/-- The slice length computed at the end of `PySlice_AdjustIndices`. -/
def sliceLen (start stop step : Int) : Int :=
  if step < 0 then
    if stop < start then (start - stop - 1) / (-step) + 1 else 0
  else
    if start < stop then (stop - start - 1) / step + 1 else 0

/-- `PySlice_Unpack` default for a `None` start followed by the adjustment
(`PY_SSIZE_T_MAX` → `len-1` for negative steps, `0` otherwise). -/
def unpackStart (len step : Int) : Option Int → Int
  | none => if step < 0 then len - 1 else 0
  | some s => adjBound len step s

/-- same for stop (`PY_SSIZE_T_MIN` → `-1` for negative steps, `PY_SSIZE_T_MAX` → `len`). -/
def unpackStop (len step : Int) : Option Int → Int
  | none => if step < 0 then -1 else len
  | some s => adjBound len step s

/-- indices `start, start+step, …` (n of them) -/
def progression (start step : Int) (n : Nat) : List Int :=
  (List.range n).map (fun (i : Nat) => start + (i : Int) * step)

/-- read the listed positions (positions outside the list are dropped; `pySliceIdx_inBounds`
shows that none is) -/
def gather {α} (l : List α) (idx : List Int) : List α :=
  idx.filterMap (fun i => if 0 ≤ i then l[i.toNat]? else none)

/-- the index list selected by `o[start:stop:step]` on a sequence of length `len` (step ≠ 0) -/
def pySliceIdx (len : Nat) (start stop : Option Int) (step : Int) : List Int :=
  let a := unpackStart len step start
  let b := unpackStop len step stop
  progression a step (sliceLen a b step).toNat

/-- `o[start:stop:step]`; `step = None` means 1, `step = 0` is `ValueError`. -/
def pySlice {α} (l : List α) (start stop step : Option Int) : Out (List α) :=
  let st := step.getD 1
  if st = 0 then .err "ValueError"
  else .ok (gather l (pySliceIdx l.length start stop st))

/-- `o[start:stop] = vs` on a list / bytearray (`list_ass_slice`) -/
def pySetSlice {α} (l : List α) (start stop : Option Int) (vs : List α) : List α :=
  let a := (unpackStart l.length 1 start).toNat
  let b := (unpackStop l.length 1 stop).toNat
  l.take a ++ vs ++ l.drop (max a b)

def pyDelSlice {α} (l : List α) (start stop : Option Int) : List α :=
  pySetSlice l start stop []

/-- `del o[start:stop:step]`: remove the selected positions -/
def pyDelSlice3 {α} (l : List α) (start stop step : Option Int) : Out (List α) :=
  let st := step.getD 1
  if st = 0 then .err "ValueError"
  else
    let idx := pySliceIdx l.length start stop st
    .ok ((l.zipIdx.filter (fun p => !(idx.contains (p.2 : Int)))).map (·.1))

end CyVerif.C15

import CyVerif.Model.Util
import CyVerif.Model.C09Pool
/-!
# C09 (part A) — integer literals: scanner language, `Utils.str_to_number`, literal rendering

Strings are `List Char` (ASCII).  Modelled code:

* `Cython/Compiler/Lexicon.py` : `intconst`, `intsuffix`, `intliteral` (decidable language predicates),
  `Scanning.strip_underscores`, `Parsing.p_int_literal` (suffix stripping);
* `Cython/Utils.py` : `str_to_number`, `strip_py2_long_suffix`;
* CPython `int(str, base)` (`PyLong_FromString`) on ASCII text, including `sys.int_max_str_digits`
  (parameter `lim`, 0 = unlimited) — reference semantics, tied to CPython differentially;
* `IntNode.generate_evaluation_code` rendering (`str` / `hex` at `10**13`), `unop_node` negation,
  `GlobalState.generate_num_constants.to_base32` + `PyLong_FromString(.., 32)`.
-/
namespace CyVerif.C09

/-! ## CPython `int(text, base)` -/

/-- `_PyLong_DigitValue`: 0-9, a-z, A-Z (37 = not a digit). -/
def digitValue (c : Char) : Nat :=
  let n := c.toNat
  if 48 ≤ n ∧ n ≤ 57 then n - 48
  else if 97 ≤ n ∧ n ≤ 122 then n - 97 + 10
  else if 65 ≤ n ∧ n ≤ 90 then n - 65 + 10
  else 37

/-- ASCII white space as seen by `int()` on a `str` (`Py_UNICODE_ISSPACE` below 128). -/
def isWs (c : Char) : Bool :=
  let n := c.toNat
  (9 ≤ n && n ≤ 13) || n == 32 || (28 ≤ n && n ≤ 31)

def stripWs (s : List Char) : List Char :=
  ((s.dropWhile isWs).reverse.dropWhile isWs).reverse

/-- The digit/underscore scan of `long_from_string_base`: accumulates the value, counts digits;
`prevUs` = previous character was `_` (or start of text: a leading `_` is rejected). -/
def scanDigits (base : Nat) : List Char → (prevUs : Bool) → (acc digits : Nat) → Option (Nat × Nat)
  | [], prevUs, acc, digits => if prevUs then none else some (acc, digits)
  | c :: cs, prevUs, acc, digits =>
    if c = '_' then
      if prevUs then none else scanDigits base cs true acc digits
    else if digitValue c < base then scanDigits base cs false (acc * base + digitValue c) (digits + 1)
    else none

def isPow2Base (b : Nat) : Bool := b == 2 || b == 4 || b == 8 || b == 16 || b == 32

/-- optional sign -/
def splitSign : List Char → Bool × List Char
  | '+' :: r => (false, r)
  | '-' :: r => (true, r)
  | r => (false, r)

/-- base 0: choose the base by prefix; "0" followed by anything else is old-style octal, for which
only a zero value is accepted (second component) -/
def chooseBase (base : Nat) (s : List Char) : Nat × Bool :=
  if base ≠ 0 then (base, false) else
  match s with
  | [] => (10, false)
  | c0 :: r =>
    if c0 ≠ '0' then (10, false) else
    match r with
    | [] => (10, true)
    | c :: _ =>
      if c = 'x' ∨ c = 'X' then (16, false)
      else if c = 'o' ∨ c = 'O' then (8, false)
      else if c = 'b' ∨ c = 'B' then (2, false)
      else (10, true)

/-- skip a base prefix that matches the base, and one underscore after it -/
def stripBasePrefix (base : Nat) (s : List Char) : List Char :=
  match s with
  | c0 :: c :: r =>
    if c0 = '0' ∧ ((base = 16 ∧ (c = 'x' ∨ c = 'X')) ∨ (base = 8 ∧ (c = 'o' ∨ c = 'O')) ∨ (base = 2 ∧ (c = 'b' ∨ c = 'B')))
    then (match r with | c2 :: r' => if c2 = '_' then r' else r | [] => r)
    else s
  | _ => s

/-- digits, limit check, old-octal check, sign -/
def pyIntCore (lim base : Nat) (zeroOnly neg : Bool) (s : List Char) : Res Int :=
  if s = [] then .err "ValueError" else
  match scanDigits base s true 0 0 with
  | none => .err "ValueError"
  | some (v, digits) =>
    if !isPow2Base base ∧ digits > 640 ∧ lim ≠ 0 ∧ digits > lim then .err "ValueError"
    else if zeroOnly ∧ v ≠ 0 then .err "ValueError"
    else .ok (if neg then -(v : Int) else v)

/-- `int(s, base)` for ASCII `s`; `base` 0 or 2..36; `lim` = `sys.get_int_max_str_digits()`. -/
def pyInt (lim : Nat) (s : List Char) (base : Nat) : Res Int :=
  if base = 1 ∨ base > 36 then .err "ValueError" else
  let s := stripWs s
  let ns := splitSign s
  let bz := chooseBase base ns.2
  pyIntCore lim bz.1 bz.2 ns.1 (stripBasePrefix bz.1 ns.2)

/-! ## `Cython/Utils.py` -/

/-- `strip_py2_long_suffix`: `value_str[-1] in 'lL'` (callers pass non-empty strings; the empty
string raises IndexError in Python — modelled by `none`). -/
def stripPy2LongSuffix (s : List Char) : Option (List Char) :=
  match s.getLast? with
  | none => none
  | some c => if c = 'l' ∨ c = 'L' then some s.dropLast else some s

/-- `str_to_number` after the sign has been split off -/
def strToNumberAbs (lim : Nat) (value : List Char) : Res Int :=
  match value with
  | [] => pyInt lim value 0          -- `len(value) < 2`
  | [_] => pyInt lim value 0
  | c0 :: c1 :: rest =>
    if c0 = '0' then
      if c1 = 'x' ∨ c1 = 'X' then
        match stripPy2LongSuffix value with
        | none => .err "IndexError"
        | some v => pyInt lim (v.drop 2) 16
      else if c1 = 'o' ∨ c1 = 'O' then pyInt lim rest 8
      else if c1 = 'b' ∨ c1 = 'B' then pyInt lim rest 2
      else pyInt lim value 8           -- Py2 octal notation ('0136')
    else pyInt lim value 0

def negRes : Res Int → Res Int
  | .ok v => .ok (-v)
  | .err e => .err e

/-- `str_to_number(value)` exactly as written (slicing semantics on character lists). -/
def strToNumber (lim : Nat) (value : List Char) : Res Int :=
  match value with
  | '-' :: r => negRes (strToNumberAbs lim r)
  | r => strToNumberAbs lim r

/-! ## Scanner language (`Lexicon.py`) -/

def nonzeroDigit (c : Char) : Bool := ['1','2','3','4','5','6','7','8','9'].contains c
def decDigit (c : Char) : Bool := ['0','1','2','3','4','5','6','7','8','9'].contains c
def binDigit (c : Char) : Bool := ['0','1'].contains c
def octDigit (c : Char) : Bool := ['0','1','2','3','4','5','6','7'].contains c
def hexDigit (c : Char) : Bool := ['0','1','2','3','4','5','6','7','8','9','A','B','C','D','E','F','a','b','c','d','e','f'].contains c
def zeroDigit (c : Char) : Bool := c == '0'

/-- `underscore_digits(d) = Rep1(d) + Rep(Str("_") + Rep1(d))`;
`need` = a digit is required next (start of text or just after `_`). -/
def ud (d : Char → Bool) : (need : Bool) → List Char → Bool
  | need, [] => !need
  | need, c :: cs => if d c then ud d false cs else if c = '_' ∧ !need then ud d true cs else false

/-- `Opt(Str("_")) + underscore_digits(d)` -/
def optUd (d : Char → Bool) : List Char → Bool
  | '_' :: cs => ud d true cs
  | cs => ud d true cs

/-- `intconst` of `make_lexicon` (four alternatives, in source order). -/
def intconst (t : List Char) : Bool :=
  (match t with | c :: r => nonzeroDigit c && optUd decDigit r | [] => false)
  || (match t with
      | '0' :: c :: r =>
        ((c == 'X' || c == 'x') && optUd hexDigit r) || ((c == 'O' || c == 'o') && optUd octDigit r)
        || ((c == 'B' || c == 'b') && optUd binDigit r)
      | _ => false)
  || ud zeroDigit true t
  || (!t.isEmpty && t.all decDigit)

def isU (c : Char) : Bool := c == 'U' || c == 'u'
def isL (c : Char) : Bool := c == 'L' || c == 'l'

/-- `intsuffix = (Opt(U) + Opt(L) + Opt(L)) | (Opt(L) + Opt(L) + Opt(U))` -/
def intsuffix (s : List Char) : Bool :=
  match s with
  | [] => true
  | [a] => isU a || isL a
  | [a, b] => (isU a && isL b) || (isL a && isL b) || (isL a && isU b)
  | [a, b, c] => (isU a && isL b && isL c) || (isL a && isL b && isU c)
  | _ => false

def isUL (c : Char) : Bool := isU c || isL c

/-- the trailing run of `UuLl` characters (what `p_int_literal` strips) -/
def suffixOf (t : List Char) : List Char := (t.reverse.takeWhile isUL).reverse
def coreOf (t : List Char) : List Char := (t.reverse.dropWhile isUL).reverse

/-- `intliteral = intconst + intsuffix` (no `intconst` ends in one of `UuLl`, so the split is unique). -/
def intliteral (t : List Char) : Bool := intconst (coreOf t) && intsuffix (suffixOf t)

/-- `PyrexScanner.strip_underscores` -/
def stripUnderscores (t : List Char) : List Char := t.filter (· ≠ '_')

/-- `p_int_literal`: the text handed to `IntNode(value=…)`, with `unsigned` and `longness`. -/
def pIntLiteral (t : List Char) : List Char × Nat × Nat :=
  let t := stripUnderscores t
  let suf := suffixOf t
  (coreOf t, (suf.filter isU).length, (suf.filter isL).length)

/-! ## Specification: the value of a literal in positional notation -/

/-- index of the (lower-cased) character in "0123456789abcdef" -/
def specDigit (c : Char) : Nat := ['0','1','2','3','4','5','6','7','8','9','a','b','c','d','e','f'].idxOf c.toLower

def positional (b : Nat) (ds : List Nat) : Nat := ds.foldl (fun acc d => acc * b + d) 0

/-- Value of an `intconst` token: Python 3 grammar (`0x`/`0o`/`0b` prefixes, decimal, zeros), and
Python 2 meaning (octal) for a legacy literal `0NNN`; underscores are separators. -/
def litValue (t : List Char) : Nat :=
  let s := t.filter (· ≠ '_')
  match s with
  | '0' :: c :: r =>
    if c = 'x' ∨ c = 'X' then positional 16 (r.map specDigit)
    else if c = 'o' ∨ c = 'O' then positional 8 (r.map specDigit)
    else if c = 'b' ∨ c = 'B' then positional 2 (r.map specDigit)
    else positional 8 (s.map specDigit)
  | _ => positional 10 (s.map specDigit)

/-- legacy literal with a digit 8 or 9 (`09`, `0128`): matched by `Rep1(digit)` only; CPython: SyntaxError. -/
def legacyBad (t : List Char) : Bool :=
  match t with
  | '0' :: c :: r => t.all decDigit && (c :: r).any (fun d => d == '8' || d == '9')
  | _ => false

/-- number of digit characters that `int()` counts against `sys.int_max_str_digits` for this token
(decimal literals only; power-of-two bases are exempt). -/
def decDigitCount (t : List Char) : Nat :=
  let s := t.filter (· ≠ '_')
  match s with
  | '0' :: _ :: _ => 0
  | _ => s.length

def digitsOK (lim d : Nat) : Prop := lim = 0 ∨ d ≤ 640 ∨ d ≤ lim
instance (lim d : Nat) : Decidable (digitsOK lim d) := by unfold digitsOK; exact inferInstance

/-! ## Rendering of integer constants (`str`, `hex`, base 32) -/

/-- little-endian digits of `n` in base `b` (empty for 0) -/
def digitsLE (b : Nat) (n : Nat) : List Nat :=
  if _h : n = 0 ∨ b < 2 then [] else (n % b) :: digitsLE b (n / b)
termination_by n
decreasing_by exact Nat.div_lt_self (by omega) (by omega)

def digitChar (d : Nat) : Char := ['0','1','2','3','4','5','6','7','8','9','a','b','c','d','e','f','g','h','i','j','k','l','m','n','o','p','q','r','s','t','u','v'].getD d '?'

/-- text of a natural number in base `b` (2..32), most significant digit first, "0" for zero -/
def natText (b n : Nat) : List Char :=
  if n = 0 then ['0'] else ((digitsLE b n).reverse).map digitChar

def signText (v : Int) : List Char := if v < 0 then ['-'] else []

/-- CPython `str(v)` with the `int_max_str_digits` limit -/
def pyStr (lim : Nat) (v : Int) : Res (List Char) :=
  let t := natText 10 v.natAbs
  if t.length > 640 ∧ lim ≠ 0 ∧ t.length > lim then .err "ValueError" else .ok (signText v ++ t)

/-- CPython `hex(v)` -/
def pyHex (v : Int) : List Char := signText v ++ ['0', 'x'] ++ natText 16 v.natAbs

/-- `to_base32` of `generate_num_constants` -/
def toBase32 (v : Int) : List Char := signText v ++ natText 32 v.natAbs

def tenTo13 : Int := 10000000000000

/-- `IntNode.generate_evaluation_code`: text handed to `get_py_int` for constant value `v`.
`fix = false`: `hex if value > 10**13 else str` (as pinned); `fix = true`: `abs(value) > 10**13`. -/
def genText (fix : Bool) (lim : Nat) (v : Int) : Res (List Char) :=
  if v > tenTo13 ∨ (fix ∧ v < -tenTo13) then .ok (pyHex v) else pyStr lim v

/-- `unop_node(pos, '-', IntNode)`: text of the folded node for operand value `v` (result `-v`).
`fix = false`: `str(-v)`; `fix = true`: `hex` beyond `10**13`. -/
def negText (fix : Bool) (lim : Nat) (v : Int) : Res (List Char) :=
  if fix ∧ (-v > tenTo13 ∨ -v < -tenTo13) then .ok (pyHex (-v)) else pyStr lim (-v)

/-! ## line protocol -/

def charsOfHex (s : String) : Option (List Char) := (parseHexBytes s).map (·.map Char.ofNat)
def hexOfChars (cs : List Char) : String := bytesToHex (cs.map Char.toNat)
def b01 (b : Bool) : String := if b then "1" else "0"

def renderTextRes : Res (List Char) → String
  | .ok t => "ok " ++ hexOfChars t
  | .err e => "err " ++ e

def handle : List String → String
  | ["int", lim, base, s] =>
    match parseNat? lim, parseNat? base, charsOfHex s with
    | some lim, some base, some s => (pyInt lim s base).render
    | _, _, _ => "bad-op"
  | ["s2n", lim, s] =>
    match parseNat? lim, charsOfHex s with
    | some lim, some s => (strToNumber lim s).render
    | _, _ => "bad-op"
  | ["scan", s] =>
    match charsOfHex s with
    | some s => s!"ok {b01 (intconst s)} {b01 (intliteral s)} {b01 (legacyBad (coreOf s))}"
    | none => "bad-op"
  | ["lit", lim, s] =>
    match parseNat? lim, charsOfHex s with
    | some lim, some s =>
      let (core, u, l) := pIntLiteral s
      s!"{hexOfChars core} {u} {l} {(strToNumber lim core).render} spec {litValue (coreOf s)}"
    | _, _ => "bad-op"
  | ["gen", fix, lim, v] =>
    match parseNat? fix, parseNat? lim, parseInt? v with
    | some fix, some lim, some v => renderTextRes (genText (fix != 0) lim v)
    | _, _, _ => "bad-op"
  | ["neg", fix, lim, v] =>
    match parseNat? fix, parseNat? lim, parseInt? v with
    | some fix, some lim, some v => renderTextRes (negText (fix != 0) lim v)
    | _, _, _ => "bad-op"
  | ["b32", v] =>
    match parseInt? v with
    | some v => "ok " ++ hexOfChars (toBase32 v)
    | none => "bad-op"
  | "pool" :: rest => handlePool rest
  | _ => "bad-op"

end CyVerif.C09

import CyVerif.Model.C08Py
import CyVerif.Model.C08Conv
/-!
# C08 — the abstract signature instantiated with hardware doubles / floats, and the line protocol.

`floatOps`: `+ - * / neg fabs == < <=` are Lean `Float` primitives (C `double` operators in the compiled
driver, `Float.Model` in the kernel).  `truncInt`, `ofInt`, `floor` are defined from `toUInt64` so that
they reduce in the kernel too.  `hypot` is NOT libm's (Lean has none): results that pass through it are
compared with a tolerance by the harness, everything else bit for bit.
-/
namespace CyVerif.C08

def f64 (bits : UInt64) : Float := Float.ofBits bits
def two31 : Float := f64 0x41E0000000000000          -- 2^31
def two52 : Float := f64 0x4330000000000000          -- 2^52
def fInf : Float := f64 0x7FF0000000000000
def fNaN : Float := f64 0x7FF8000000000000
def fZero : Float := f64 0
def fOne : Float := f64 0x3FF0000000000000

/-- C `(int)x` on x86-64 (`cvttsd2si`): truncation, and INT_MIN for NaN / out of range -/
def truncIntF (x : Float) : Int :=
  if x.isNaN || !(Float.lt (Float.abs x) (Float.add two31 fOne)) then -2147483648
  else
    let m : Int := (Float.abs x).toUInt64.toNat
    let v := if Float.lt x fZero then -m else m
    if v ≥ 2147483648 then -2147483648 else v

def ofIntF (i : Int) : Float :=
  if i < 0 then Float.neg (UInt64.toFloat (UInt64.ofNat (-i).toNat)) else UInt64.toFloat (UInt64.ofNat i.toNat)

/-- `floor`, up to the sign of a zero result (only used under `==`) -/
def floorF (x : Float) : Float :=
  if x.isNaN || !(Float.lt (Float.abs x) two52) then x
  else
    let t := UInt64.toFloat (Float.abs x).toUInt64
    let t := if Float.lt x fZero then Float.neg t else t
    if Float.lt x t then Float.sub t fOne else t

/-- stand-in for libm `hypot` (C99 special cases exact, finite case approximate) -/
def hypotF (x y : Float) : Float :=
  if x.isInf || y.isInf then fInf
  else if x.isNaN || y.isNaN then fNaN
  else
    let ax := Float.abs x
    let ay := Float.abs y
    let m := if Float.lt ax ay then ay else ax
    if Float.beq m fZero then fZero
    else
      let u := Float.div ax m
      let v := Float.div ay m
      Float.mul m (Float.sqrt (Float.add (Float.mul u u) (Float.mul v v)))

def floatOps : FOps Float where
  zero := fZero
  one := fOne
  nan := fNaN
  add := Float.add
  sub := Float.sub
  mul := Float.mul
  div := Float.div
  neg := Float.neg
  abs := Float.abs
  eq := Float.beq
  lt := Float.lt
  le := Float.le
  isNaN := Float.isNaN
  isInf := Float.isInf
  floor := floorF
  truncInt := truncIntF
  ofInt := ofIntF
  hundred := f64 0x4059000000000000
  hypot := hypotF
  atan2 := Float.atan2
  pow := Float.pow
  sqrt := Float.sqrt
  log := Float.log
  exp := Float.exp
  sin := Float.sin
  cos := Float.cos

/-! binary32 (`float complex`) -/
def g32 (bits : UInt32) : Float32 := Float32.ofBits bits
def gZero : Float32 := g32 0
def gOne : Float32 := g32 0x3F800000
def gTwo31 : Float32 := g32 0x4F000000
def gTwo23 : Float32 := g32 0x4B000000

def truncIntG (x : Float32) : Int :=
  if x.isNaN || !(Float32.lt (Float32.abs x) (Float32.add gTwo31 gOne)) then -2147483648
  else
    let m : Int := (Float32.abs x).toUInt64.toNat
    let v := if Float32.lt x gZero then -m else m
    if v ≥ 2147483648 then -2147483648 else v

def ofIntG (i : Int) : Float32 :=
  if i < 0 then Float32.neg (UInt64.toFloat32 (UInt64.ofNat (-i).toNat)) else UInt64.toFloat32 (UInt64.ofNat i.toNat)

def floorG (x : Float32) : Float32 :=
  if x.isNaN || !(Float32.lt (Float32.abs x) gTwo23) then x
  else
    let t := UInt64.toFloat32 (Float32.abs x).toUInt64
    let t := if Float32.lt x gZero then Float32.neg t else t
    if Float32.lt x t then Float32.sub t gOne else t

def hypotG (x y : Float32) : Float32 :=
  if x.isInf || y.isInf then g32 0x7F800000
  else if x.isNaN || y.isNaN then g32 0x7FC00000
  else (hypotF x.toFloat y.toFloat).toFloat32

def float32Ops : FOps Float32 where
  zero := gZero
  one := gOne
  nan := g32 0x7FC00000
  add := Float32.add
  sub := Float32.sub
  mul := Float32.mul
  div := Float32.div
  neg := Float32.neg
  abs := Float32.abs
  eq := Float32.beq
  lt := Float32.lt
  le := Float32.le
  isNaN := Float32.isNaN
  isInf := Float32.isInf
  floor := floorG
  truncInt := truncIntG
  ofInt := ofIntG
  hundred := g32 0x42C80000
  hypot := hypotG
  atan2 := Float32.atan2
  pow := Float32.pow
  sqrt := Float32.sqrt
  log := Float32.log
  exp := Float32.exp
  sin := Float32.sin
  cos := Float32.cos


/-! ## line protocol -/

def hexNat? (s : String) : Option Nat :=
  s.toList.foldl (fun acc c => match acc, hexVal c with
    | some n, some d => some (n * 16 + d)
    | _, _ => none) (some 0)

def hexOf (n : Nat) (digits : Nat) : String :=
  String.ofList ((List.range digits).reverse.map fun i => hexDigit (n / 16 ^ i % 16))

def parseD (s : String) : Option Float :=
  if s.length != 16 then none else (hexNat? s).map fun n => f64 (UInt64.ofNat n)
def renderD (x : Float) : String := if x.isNaN then "nan" else hexOf x.toBits.toNat 16
def parseS (s : String) : Option Float32 :=
  if s.length != 8 then none else (hexNat? s).map fun n => g32 (UInt32.ofNat n)
def renderS (x : Float32) : String := if x.isNaN then "nan" else hexOf x.toBits.toNat 8

def PowPath.name : PowPath → String
  | .int k inv => s!"int{k}{if inv then "i" else ""}"
  | .zeroBase => "zerobase" | .realPow => "realpow" | .polar => "polar"

section
variable {F : Type} (o : FOps F) (rd : F → String)

def rCx (z : Cx F) : String := s!"{rd z.re} {rd z.im}"
def rResCx : Res (Cx F) → String
  | .ok z => s!"ok {rCx rd z}"
  | .err e => s!"err {e}"
def rB (b : Bool) : String := if b then "ok 1" else "ok 0"

def handleBin (op : String) (a b : Cx F) : String :=
  match op with
  | "cy_eq" => rB (cyEq o a b)
  | "cy_sum" => s!"ok {rCx rd (cySum o a b)}"
  | "cy_diff" => s!"ok {rCx rd (cyDiff o a b)}"
  | "cy_prod" => s!"ok {rCx rd (cyProd o a b)}"
  | "cy_quot_pinned" => s!"ok {rCx rd (cyQuot .pinned o a b)}"
  | "cy_quot_ported" => s!"ok {rCx rd (cyQuot .ported o a b)}"
  | "cy_quot_naive" => s!"ok {rCx rd (cyQuotNaive o a b)}"
  | "cy_div_pinned_0" => rResCx rd (cyDivNode .pinned false o a b)
  | "cy_div_pinned_1" => rResCx rd (cyDivNode .pinned true o a b)
  | "cy_div_ported_0" => rResCx rd (cyDivNode .ported false o a b)
  | "cy_div_ported_1" => rResCx rd (cyDivNode .ported true o a b)
  | "cy_pow_h" => let (p, z) := cyPowCore true o a b; s!"ok {p.name} {rCx rd z}"
  | "cy_pow_s" => let (p, z) := cyPowCore false o a b; s!"ok {p.name} {rCx rd z}"
  | "py_eq" => rB (pyEq o a b)
  | "py_sum" => s!"ok {rCx rd (pySum o a b)}"
  | "py_diff" => s!"ok {rCx rd (pyDiff o a b)}"
  | "py_prod" => s!"ok {rCx rd (pyProd o a b)}"
  | "py_div" => rResCx rd (pyDiv o a b)
  | "py_pow" =>
    let tag := if pyPowIsInt o b then "int" else "gen"
    match pyPow o a b with
    | .ok z => s!"ok {tag} {rCx rd z}"
    | .err e => s!"err {e}"
  | _ => "bad-op"

def handleUn (op : String) (a : Cx F) : String :=
  match op with
  | "cy_neg" => s!"ok {rCx rd (cyNeg o a)}"
  | "cy_conj" => s!"ok {rCx rd (cyConj o a)}"
  | "cy_iszero" => rB (cyIsZero o a)
  | "cy_abs_h" => s!"ok {rd (cyAbs true o a)}"
  | "cy_abs_s" => s!"ok {rd (cyAbs false o a)}"
  | "py_neg" => s!"ok {rCx rd (pyNeg o a)}"
  | "py_conj" => s!"ok {rCx rd (pyConj o a)}"
  | "py_abs" => match pyAbs o a with
    | .ok r => s!"ok {rd r}"
    | .err e => s!"err {e}"
  | _ => "bad-op"

def handleG (ps : String → Option F) : List String → String
  | [op, ar, ai, br, bi] =>
    match ps ar, ps ai, ps br, ps bi with
    | some ar, some ai, some br, some bi => handleBin o rd op ⟨ar, ai⟩ ⟨br, bi⟩
    | _, _, _, _ => "bad-op"
  | [op, ar, ai] =>
    match ps ar, ps ai with
    | some ar, some ai => handleUn o rd op ⟨ar, ai⟩
    | _, _ => "bad-op"
  | _ => "bad-op"
end

def handle : List String → String
  | "d" :: rest => handleG floatOps renderD parseD rest
  | "f" :: rest => handleG float32Ops renderS parseS rest
  | "conv" :: rest => handleConv rest
  | _ => "bad-op"

end CyVerif.C08

import CyVerif.Model.Util
/-!
Model for property C19, part 4: string / bytes comparison and membership helpers.

* `StringTools.c: __Pyx__PyUnicode_EqualsUCS4` + macro `__Pyx_PyObject_Equals_uchar` (`s == 'c'`)
* `StringTools.c: __Pyx_UnicodeContainsUCS4` (`ch in text`), `__Pyx_BytesContains` (`c in bytes`)
* `Optimize.c: PyObjectCompare`: `__Pyx_PyObject_Compare{PyBytes,PyByteArray}…` for `== != < <= > >=`

A unicode object is its PEP 393 kind (1, 2 or 4 bytes per character) and its code points;
CPython keeps the kind canonical (smallest that fits the largest character).
-/
namespace CyVerif.C19

structure UStr where
  kind : Nat
  chars : List Nat
  deriving DecidableEq, Repr

def kindOf (chars : List Nat) : Nat :=
  if chars.all (· < 256) then 1 else if chars.all (· < 65536) then 2 else 4

def UStr.canon (s : UStr) : Prop := s.kind = kindOf s.chars

/-- `__Pyx__PyUnicode_EqualsUCS4(s1, ch2, equals)`; `true` = the C function returns 1 -/
def equalsUCS4 (s : UStr) (ch2 : Nat) (eq : Bool) : Bool :=
  match s.chars with
  | [ch1] =>
      if ch2 < 256 then (if ch1 = ch2 then eq else !eq)          -- reads the first character for every kind
      else if ch2 < 65536 then
        (if s.kind = 2 ∨ s.kind = 4 then (if ch1 = ch2 then eq else !eq) else !eq)
      else
        (if s.kind = 4 then (if ch1 = ch2 then eq else !eq) else !eq)
  | _ => !eq       -- length != 1

/-- first operand of `s1 == 'c'` as the macro sees it -/
inductive PyStrArg where
  | none
  | str (s : UStr) (identical : Bool)    -- identical = same object as the literal
  | other (richcmp : Bool)               -- outcome of `PyObject_RichCompareBool(s1, s2, equals)`
  deriving Repr

/-- macro `__Pyx_PyObject_Equals_uchar(s1, s2, ch2, equals, s1_is_str)` -/
def equalsUchar (a : PyStrArg) (ch2 : Nat) (eq : Bool) : Bool :=
  match a with
  | .str s ident => if ident then eq else equalsUCS4 s ch2 eq
  | .none => !eq
  | .other rc => rc

/-- `__Pyx_UnicodeContainsUCS4(character, text, eq)` -/
def unicodeContainsUCS4 (ch : Nat) (s : UStr) (eq : Bool) : Bool :=
  if ch ≤ 0xFF ∧ s.kind = 1 then (s.chars.any (· % 256 == ch % 256)) == eq     -- memchr on the 1-byte data
  else if ch > 0xFF ∧ s.kind = 1 then !eq
  else if ch > 0xFFFF ∧ s.kind = 2 then !eq
  else (s.chars.any (· == ch)) == eq                                            -- PyUnicode_FindChar

/-- `x in <bytes object>` for a C integer `x`.  `charOnly = false` (as found): every C integer
type is cast to `char`; `true` (repaired): only `char`-sized types take this helper, wider
ones are converted to a Python int and CPython's own test applies. -/
def bytesContainsC (charOnly : Bool) (bits : Nat) (x : Int) (bs : List Nat) (eq : Bool) : Res Bool :=
  if charOnly && decide (bits > 8) then
    (if 0 ≤ x ∧ x < 256 then .ok ((bs.any (· == x.toNat)) == eq) else .err "ValueError")
  else .ok ((bs.any (fun b => (b : Int) == x % 256)) == eq)       -- memchr(…, (unsigned char)(char)x, …)

/-- CPython `x in b`, `x not in b` for an int `x` -/
def bytesContainsPy (x : Int) (bs : List Nat) (eq : Bool) : Res Bool :=
  if 0 ≤ x ∧ x < 256 then .ok ((bs.any (· == x.toNat)) == eq) else .err "ValueError"

/-! ### bytes / bytearray comparisons -/

/-- `memcmp` of two equally long byte sequences (sign only) -/
def memcmp : List Nat → List Nat → Int
  | a :: as, b :: bs => if a < b then -1 else if b < a then 1 else memcmp as bs
  | _, _ => 0

/-- `__Pyx_PyObject_Compare…{Eq,Ne}`; `ba1` = first operand is a bytearray;
an empty buffer still has its terminating NUL at index 0 -/
def bytesEqNe (ba1 : Bool) (s1 s2 : List Nat) (ne : Bool) : Bool :=
  if s1.length ≠ s2.length then ne
  else if ba1 && s1.length == 0 then !ne
  else if s1.headD 0 ≠ s2.headD 0 then ne
  else if s1.length == 1 then !ne
  else if memcmp s1 s2 == 0 then !ne else ne

inductive OrdOp where
  | lt | le | gt | ge
  deriving DecidableEq, Repr

def OrdOp.holds (op : OrdOp) (c : Int) : Bool :=
  match op with
  | .lt => decide (c < 0)
  | .le => decide (c ≤ 0)
  | .gt => decide (c > 0)
  | .ge => decide (c ≥ 0)

def OrdOp.isLtLe : OrdOp → Bool
  | .lt => true
  | .le => true
  | _ => false

/-- `__Pyx_PyObject_Compare…{Lt,Le,Gt,Ge}`; `emptyFix = false` is the source as found -/
def bytesOrd (emptyFix : Bool) (op : OrdOp) (s1 s2 : List Nat) : Bool :=
  let l1 : Int := s1.length
  let l2 : Int := s2.length
  let short := min s1.length s2.length
  if short == 0 then
    if emptyFix then op.holds (l1 - l2)
    else if s1.length == 0 then op.isLtLe else !op.isLtLe
  else
    let c0 : Int := (s1.headD 0 : Int) - (s2.headD 0 : Int)
    let c1 := if c0 == 0 && decide (short > 1) then memcmp (s1.take short) (s2.take short) else c0
    let c2 := if c1 == 0 then l1 - l2 else c1
    op.holds c2

/-- Python: lexicographic order of byte sequences, as a sign -/
def lexCmp : List Nat → List Nat → Int
  | [], [] => 0
  | [], _ :: _ => -1
  | _ :: _, [] => 1
  | a :: as, b :: bs => if a < b then -1 else if b < a then 1 else lexCmp as bs

end CyVerif.C19

import CyVerif.Model.Util
/-!
Model of `Cython/Shadow.py`: `cdiv`, `cmod` (pure-Python emulation of C
division and modulo).  Python `//` is `Int.fdiv`, `%` is `Int.fmod`;
a zero divisor raises `ZeroDivisionError` in both.
-/
namespace CyVerif.C38

/-- `def cdiv(a, b)`: if a < 0: a, b = -a, -b; if b < 0: return (a+b+1)//b; return a//b -/
def cdiv (a b : Int) : Res Int :=
  let a' := if a < 0 then -a else a
  let b' := if a < 0 then -b else b
  if b' < 0 then
    .ok (Int.fdiv (a' + b' + 1) b')
  else if b' = 0 then .err "ZeroDivisionError"
  else .ok (Int.fdiv a' b')

/-- `def cmod(a, b)`: r = a % b; if (a*b) < 0 and r: r -= b; return r -/
def cmod (a b : Int) : Res Int :=
  if b = 0 then .err "ZeroDivisionError"
  else
    let r := Int.fmod a b
    if a * b < 0 ∧ r ≠ 0 then .ok (r - b) else .ok r

def handle : List String → String
  | ["cdiv", a, b] =>
    match parseInt? a, parseInt? b with
    | some a, some b => (cdiv a b).render
    | _, _ => "bad-op"
  | ["cmod", a, b] =>
    match parseInt? a, parseInt? b with
    | some a, some b => (cmod a b).render
    | _, _ => "bad-op"
  | _ => "bad-op"

end CyVerif.C38

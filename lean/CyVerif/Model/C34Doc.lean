import CyVerif.Model.C34
/-!
The DOCUMENTED dispatch rule (docs/src/userguide/fusedtypes.rst, "Calling"), transcribed as a small
independent specification.  It never looks at the sorted order, only at the declared member set.

  "For `def` functions the arguments are typechecked at runtime, and a best-effort approach is
   performed to figure out which specialization is needed.  This means that this may result in a
   runtime `TypeError` if no specialization was found. [...]
   The automatic dispatching rules are typically as follows, in order of preference:
   * try to find an exact match
   * choose the biggest corresponding numerical type (biggest float, biggest complex, biggest int)"

Reading used here (the most lenient one; ties are a SET of acceptable members):
* exact match: `bool` -> `bint`; an instance of a Python builtin type -> that builtin member; an
  extension-class instance -> the member class nearest in its MRO; a buffer -> every memoryview member
  the buffer can be coerced to; `None` -> memoryview members (if the parameter accepts None) and object;
* otherwise numbers: Python int (and bool) -> the C integer members of maximal sizeof; float -> the C
  floating members of maximal sizeof; complex -> the complex members of maximal sizeof;
* otherwise the `object` member; otherwise no specialisation is found: TypeError.
-/
namespace CyVerif.C34

def Ty.size : Ty → Nat
  | .cint _ _ s => s | .cfloat _ s => s | .ccomplex _ s => s | .mview _ s _ _ => s | _ => 0

def Ty.isCint : Ty → Bool | .cint .. => true | _ => false
def Ty.isCfloat : Ty → Bool | .cfloat .. => true | _ => false
def Ty.isCcomplex : Ty → Bool | .ccomplex .. => true | _ => false

/-- the members satisfying `pred` whose size is maximal among those -/
def biggest (pred : Ty → Bool) (ms : List (Ty × Nat)) : List (Ty × Nat) :=
  ms.filter (fun p => pred p.1 && ms.all (fun q => !pred q.1 || decide (q.1.size ≤ p.1.size)))

/-- nearest ancestor class (in MRO order) that is a member -/
def nearestExt (ms : List (Ty × Nat)) (mro : List Nat) : Option Nat :=
  mro.find? (fun c => ms.any (fun p => p.1 == .ext c))

def exactSet (ms : List (Ty × Nat)) (acceptNone : Bool) (v : Val) : List (Ty × Nat) :=
  match v with
  | .bool => ms.filter (fun p => p.1 == .bint)
  | .builtin n true => ms.filter (fun p => p.1 == .builtin n)
  | .inst mro =>
    match nearestExt ms mro with
    | some c => ms.filter (fun p => p.1 == .ext c)
    | none => []
  | .none => ms.filter (fun p => (acceptNone && p.1.isMv) || p.1.isObj)
  | .buf .. => ms.filter (fun p => fromPyOK v p.1)
  | _ => []

def numSet (ms : List (Ty × Nat)) (v : Val) : List (Ty × Nat) :=
  match v with
  | .int | .bool => biggest Ty.isCint ms
  | .float => biggest Ty.isCfloat ms
  | .complex => biggest Ty.isCcomplex ms
  | _ => []

/-- acceptable members (declaration indices) under the documented rule; `[]` = TypeError -/
def docChoice (ms : List (Ty × Nat)) (acceptNone : Bool) (v : Val) : List Nat :=
  let e := exactSet ms acceptNone v
  if e ≠ [] then e.map (·.2) else
  let n := numSet ms v
  if n ≠ [] then n.map (·.2) else
  (ms.filter (fun p => p.1.isObj)).map (·.2)

end CyVerif.C34

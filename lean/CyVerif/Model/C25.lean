/-! C25 — expression printer (`Cython/CodeWriter.py: ExpressionWriter`) and a reference reader.

Tokens, not characters: the printer model emits a token list (`Tok`); atoms (names, numbers,
string/bytes literals, constants) carry an opaque numeric id chosen by the harness, the
literal text itself is only checked differentially (CPython `repr`/`ast.literal_eval`).
`not in` / `is not` are single tokens.  No Mathlib. -/
namespace CyVerif.C25

inductive Sym
  | plus | minus | star | dstar | slash | dslash | percent | at | amp | bar | caret | tilde | shl | shr
  | lt | le | gt | ge | ne | eq | kin | knotin | kis | kisnot | knot | kand | kor | kif | kelse | klambda
  | lpar | rpar | lbrk | rbrk | lbrc | rbrc | comma | colon | dot | assign
  deriving DecidableEq, Repr

/-- atom kinds: name, int, float, imaginary, str, bytes, constant (True/False/None/Ellipsis) -/
inductive AK | name | int | float | imag | str | bytes | const
  deriving DecidableEq, Repr

inductive Tok
  | sym (s : Sym)
  | atom (k : AK) (id : Nat)
  deriving DecidableEq, Repr

inductive BinOp
  | or | and | bor | bxor | band | shl | shr | add | sub | mul | matmul | div | fdiv | mod | pow
  deriving DecidableEq, Repr

inductive CmpOp | lt | le | gt | ge | ne | eq | isin | notin | is | isnot
  deriving DecidableEq, Repr

/-- `negf` = sign of a folded negative int/float literal (`IntNode(value='-1')`). -/
inductive UnOp | not | pos | neg | inv | negf
  deriving DecidableEq, Repr

/-- bracket contexts of an element list -/
inductive Ctx | call | index | tuple | list | brace | lam
  deriving DecidableEq, Repr

inductive DK | tuple | list | brace
  deriving DecidableEq, Repr

inductive IK | pos | star | dstar
  deriving DecidableEq, Repr

mutual
inductive Expr
  | atom (k : AK) (id : Nat)
  | un (op : UnOp) (e : Expr)
  | bin (op : BinOp) (l r : Expr)
  | cmp (l : Expr) (op : CmpOp) (r : Expr) (more : Links)
  | cond (t c f : Expr)
  | lam (ps : Elems) (body : Expr)
  | attr (b : Expr) (name : Nat)
  | call (f : Expr) (args : Elems)
  | index (b : Expr) (items : Elems)
  | disp (k : DK) (es : Elems)
inductive Elems
  | nil
  | item (k : IK) (e : Expr) (tl : Elems)
  | kw (name : Nat) (e : Expr) (tl : Elems)
  | kv (k v : Expr) (tl : Elems)
  | slice (lo hi st : OptE) (tl : Elems)
inductive OptE
  | none
  | some (e : Expr)
inductive Links
  | nil
  | cons (op : CmpOp) (e : Expr) (tl : Links)
end

/-- the precedence numbers of `ExpressionWriter.binop_precedence` / `unop_precedence`, one per class -/
structure Tbl where
  por : Nat
  pand : Nat
  pnot : Nat
  pcmp : Nat
  pbor : Nat
  pbxor : Nat
  pband : Nat
  pshift : Nat
  padd : Nat
  pmul : Nat
  punary : Nat
  ppow : Nat
  deriving DecidableEq, Repr

/-- well-formedness the proofs need: the classes are strictly ordered as in Python's grammar -/
def Tbl.WF (T : Tbl) : Prop :=
  0 < T.por ∧ T.por < T.pand ∧ T.pand < T.pnot ∧ T.pnot < T.pcmp ∧ T.pcmp < T.pbor ∧
  T.pbor < T.pbxor ∧ T.pbxor < T.pband ∧ T.pband < T.pshift ∧ T.pshift < T.padd ∧
  T.padd < T.pmul ∧ T.pmul < T.punary ∧ T.punary < T.ppow

instance (T : Tbl) : Decidable T.WF := by unfold Tbl.WF; infer_instance

/-- printer variant: which of the four repairs are present in the source -/
structure Var where
  par : Bool    -- child contexts / associativity / conditional / postfix bases / bracket reset
  casc : Bool   -- comparison cascades are printed
  tup1 : Bool   -- trailing comma of 1-tuples
  lam : Bool    -- lambda is printed (else placeholder `...`)
  deriving DecidableEq, Repr

def Tbl.pprim (T : Tbl) : Nat := T.ppow + 1

def bprec (T : Tbl) : BinOp → Nat
  | .or => T.por | .and => T.pand | .bor => T.pbor | .bxor => T.pbxor | .band => T.pband
  | .shl => T.pshift | .shr => T.pshift | .add => T.padd | .sub => T.padd
  | .mul => T.pmul | .matmul => T.pmul | .div => T.pmul | .fdiv => T.pmul | .mod => T.pmul
  | .pow => T.ppow

/-- operators whose chains nest to the right: `**` (Python grammar) and `and`/`or` (associative;
    the Cython parser builds them right-nested, so the repaired printer leaves right operands bare) -/
def rassoc : BinOp → Bool
  | .pow => true | .and => true | .or => true | _ => false

def uprec (T : Tbl) : UnOp → Nat
  | .not => T.pnot | _ => T.punary

def bsym : BinOp → Sym
  | .or => .kor | .and => .kand | .bor => .bar | .bxor => .caret | .band => .amp
  | .shl => .shl | .shr => .shr | .add => .plus | .sub => .minus
  | .mul => .star | .matmul => .at | .div => .slash | .fdiv => .dslash | .mod => .percent
  | .pow => .dstar

def csym : CmpOp → Sym
  | .lt => .lt | .le => .le | .gt => .gt | .ge => .ge | .ne => .ne | .eq => .eq
  | .isin => .kin | .notin => .knotin | .is => .kis | .isnot => .kisnot

def usym : UnOp → Sym
  | .not => .knot | .pos => .plus | .neg => .minus | .inv => .tilde | .negf => .minus

def openOf : DK → Sym | .tuple => .lpar | .list => .lbrk | .brace => .lbrc
def closeOfD : DK → Sym | .tuple => .rpar | .list => .rbrk | .brace => .rbrc
def ctxOfD : DK → Ctx | .tuple => .tuple | .list => .list | .brace => .brace
def closeOf : Ctx → Sym
  | .call => .rpar | .tuple => .rpar | .index => .rbrk | .list => .rbrk | .brace => .rbrc | .lam => .colon

def wrap (b : Bool) (ts : List Tok) : List Tok :=
  if b then Tok.sym .lpar :: ts ++ [Tok.sym .rpar] else ts

def Elems.isNil : Elems → Bool | .nil => true | _ => false
/-- exactly one element -/
def Elems.single : Elems → Bool
  | .item _ _ tl => tl.isNil | .kw _ _ tl => tl.isNil | .kv _ _ tl => tl.isNil | .slice _ _ _ tl => tl.isNil
  | .nil => false

def isIntAtom : Expr → Bool | .atom .int _ => true | _ => false
def isNumAtom : Expr → Bool | .atom .int _ => true | .atom .float _ => true | _ => false

def iksyms : IK → List Tok | .pos => [] | .star => [Tok.sym .star] | .dstar => [Tok.sym .dstar]

/-! ### the printer: `pr T v p e` = tokens written by `visit(e)` when the top of the precedence
stack is `p` (`operator_enter`: parenthesise iff `p > own precedence`). -/
mutual
def pr (T : Tbl) (v : Var) (p : Nat) : Expr → List Tok
  | .atom k i => [Tok.atom k i]
  | .un op x =>
      let u := uprec T op
      wrap (decide (p > u) && (v.par || op != .negf)) (Tok.sym (usym op) :: pr T v u x)
  | .bin op l r =>
      let q := bprec T op
      let lc := if v.par && rassoc op then q + 1 else q
      let rc := if v.par && !rassoc op then q + 1 else q
      wrap (decide (p > q)) (pr T v lc l ++ Tok.sym (bsym op) :: pr T v rc r)
  | .cmp l op r more =>
      let q := T.pcmp
      let c := if v.par then q + 1 else q
      wrap (decide (p > q))
        (pr T v c l ++ Tok.sym (csym op) :: pr T v c r ++ (if v.casc then prLinks T v c more else []))
  | .cond t c f =>
      if v.par then
        wrap (decide (p > 0)) (pr T v 1 t ++ Tok.sym .kif :: pr T v 1 c ++ Tok.sym .kelse :: pr T v 0 f)
      else pr T v p t ++ Tok.sym .kif :: pr T v p c ++ Tok.sym .kelse :: pr T v p f
  | .lam ps body =>
      if v.lam then
        let ip := if v.par then 0 else p
        wrap (decide (p > 0)) (Tok.sym .klambda :: prElems T v ip ps ++ Tok.sym .colon :: pr T v ip body)
      else [Tok.atom .const 0]
  | .attr b n =>
      (if v.par then (if isIntAtom b then wrap true (pr T v 0 b) else pr T v T.pprim b) else pr T v p b)
        ++ [Tok.sym .dot, Tok.atom .name n]
  | .call f args =>
      (if v.par then pr T v T.pprim f else pr T v p f)
        ++ Tok.sym .lpar :: prElems T v (if v.par then 0 else p) args ++ [Tok.sym .rpar]
  | .index b items =>
      (if v.par then pr T v T.pprim b else pr T v p b)
        ++ Tok.sym .lbrk :: prElems T v (if v.par then 0 else p) items ++ [Tok.sym .rbrk]
  | .disp k es =>
      Tok.sym (openOf k) :: prElems T v (if v.par then 0 else p) es
        ++ (if k == .tuple && es.single && v.tup1 then [Tok.sym .comma] else []) ++ [Tok.sym (closeOfD k)]
def prElems (T : Tbl) (v : Var) (p : Nat) : Elems → List Tok
  | .nil => []
  | .item k e tl => iksyms k ++ pr T v p e ++ (if tl.isNil then [] else [Tok.sym .comma]) ++ prElems T v p tl
  | .kw n e tl => Tok.atom .name n :: Tok.sym .assign :: pr T v p e
        ++ (if tl.isNil then [] else [Tok.sym .comma]) ++ prElems T v p tl
  | .kv k x tl => pr T v p k ++ Tok.sym .colon :: pr T v p x
        ++ (if tl.isNil then [] else [Tok.sym .comma]) ++ prElems T v p tl
  | .slice lo hi st tl => prOpt T v p lo ++ Tok.sym .colon :: prOpt T v p hi ++ prStep T v p st
        ++ (if tl.isNil then [] else [Tok.sym .comma]) ++ prElems T v p tl
def prOpt (T : Tbl) (v : Var) (p : Nat) : OptE → List Tok
  | .none => []
  | .some e => pr T v p e
def prStep (T : Tbl) (v : Var) (p : Nat) : OptE → List Tok
  | .none => []
  | .some e => Tok.sym .colon :: pr T v p e
def prLinks (T : Tbl) (v : Var) (p : Nat) : Links → List Tok
  | .nil => []
  | .cons op e tl => Tok.sym (csym op) :: pr T v p e ++ prLinks T v p tl
end

/-- what the printer writes for a whole default-value expression (stack `[0]`) -/
def printE (T : Tbl) (v : Var) (e : Expr) : List Tok := pr T v 0 e

/-! ### the reference reader: precedence climbing over tokens -/
inductive Infix
  | bin (op : BinOp) | cmp (op : CmpOp) | kif | dot | lpar | lbrk | none
  deriving DecidableEq, Repr

def infixOf : Sym → Infix
  | .kor => .bin .or | .kand => .bin .and | .bar => .bin .bor | .caret => .bin .bxor | .amp => .bin .band
  | .shl => .bin .shl | .shr => .bin .shr | .plus => .bin .add | .minus => .bin .sub
  | .star => .bin .mul | .at => .bin .matmul | .slash => .bin .div | .dslash => .bin .fdiv
  | .percent => .bin .mod | .dstar => .bin .pow
  | .lt => .cmp .lt | .le => .cmp .le | .gt => .cmp .gt | .ge => .cmp .ge | .ne => .cmp .ne | .eq => .cmp .eq
  | .kin => .cmp .isin | .knotin => .cmp .notin | .kis => .cmp .is | .kisnot => .cmp .isnot
  | .kif => .kif | .dot => .dot | .lpar => .lpar | .lbrk => .lbrk
  | _ => .none

def unOfSym : Sym → Option UnOp
  | .knot => some .not | .plus => some .pos | .minus => some .neg | .tilde => some .inv | _ => none

/-- level at which the right operand of a binary operator is read
    (`**`: a `u_expr`, i.e. the unary level; `and`/`or` chains nest to the right; all others are left-associative) -/
def rbp (T : Tbl) (op : BinOp) : Nat :=
  match op with
  | .pow => T.punary
  | .and => T.pand
  | .or => T.por
  | _ => bprec T op + 1

/-- `-<int/float literal>` is the folded literal (as the Cython parser folds it) -/
def mkUn (op : UnOp) (x : Expr) : Expr :=
  if op = .neg && isNumAtom x then .un .negf x else .un op x

/-- `( … )`: one positional element without trailing comma is a parenthesised expression -/
def mkParen (es : Elems) (trailing : Bool) : Expr :=
  match es, trailing with
  | .item .pos e .nil, false => e
  | es, _ => .disp .tuple es

def trailingOf (tl : Elems) (inner : Bool) : Bool := if tl.isNil then true else inner

mutual
def parseE (T : Tbl) : Nat → Nat → List Tok → Option (Expr × List Tok)
  | 0, _, _ => none
  | f+1, p, ts =>
    match parsePre T f ts with
    | some (lhs, ts1) => loop T f p lhs ts1
    | none => none
def parsePre (T : Tbl) : Nat → List Tok → Option (Expr × List Tok)
  | 0, _ => none
  | f+1, ts =>
    match ts with
    | Tok.atom k i :: ts1 => some (.atom k i, ts1)
    | Tok.sym .lpar :: ts1 =>
      match elems T f .tuple ts1 with
      | some (es, tr, ts2) => some (mkParen es tr, ts2)
      | none => none
    | Tok.sym .lbrk :: ts1 =>
      match elems T f .list ts1 with
      | some (es, _, ts2) => some (.disp .list es, ts2)
      | none => none
    | Tok.sym .lbrc :: ts1 =>
      match elems T f .brace ts1 with
      | some (es, _, ts2) => some (.disp .brace es, ts2)
      | none => none
    | Tok.sym .klambda :: ts1 =>
      match elems T f .lam ts1 with
      | some (ps, _, ts2) =>
        match parseE T f 0 ts2 with
        | some (b, ts3) => some (.lam ps b, ts3)
        | none => none
      | none => none
    | Tok.sym s :: ts1 =>
      match unOfSym s with
      | some op =>
        match parseE T f (uprec T op) ts1 with
        | some (x, ts2) => some (mkUn op x, ts2)
        | none => none
      | none => none
    | [] => none
def loop (T : Tbl) : Nat → Nat → Expr → List Tok → Option (Expr × List Tok)
  | 0, _, _, _ => none
  | f+1, p, lhs, ts =>
    match ts with
    | Tok.sym s :: ts1 =>
      match infixOf s with
      | .bin op =>
        if bprec T op ≥ p then
          match parseE T f (rbp T op) ts1 with
          | some (r, ts2) => loop T f p (.bin op lhs r) ts2
          | none => none
        else some (lhs, ts)
      | .cmp op =>
        if T.pcmp ≥ p then
          match parseE T f (T.pcmp + 1) ts1 with
          | some (r, ts2) =>
            match links T f ts2 with
            | some (more, ts3) => loop T f p (.cmp lhs op r more) ts3
            | none => none
          | none => none
        else some (lhs, ts)
      | .kif =>
        if p = 0 then
          match parseE T f 1 ts1 with
          | some (c, Tok.sym .kelse :: ts2) =>
            match parseE T f 0 ts2 with
            | some (fv, ts3) => loop T f p (.cond lhs c fv) ts3
            | none => none
          | _ => none
        else some (lhs, ts)
      | .dot =>
        match ts1 with
        | Tok.atom .name n :: ts2 => loop T f p (.attr lhs n) ts2
        | _ => none
      | .lpar =>
        match elems T f .call ts1 with
        | some (args, _, ts2) => loop T f p (.call lhs args) ts2
        | none => none
      | .lbrk =>
        match elems T f .index ts1 with
        | some (items, _, ts2) => loop T f p (.index lhs items) ts2
        | none => none
      | .none => some (lhs, ts)
    | _ => some (lhs, ts)
def links (T : Tbl) : Nat → List Tok → Option (Links × List Tok)
  | 0, _ => none
  | f+1, ts =>
    match ts with
    | Tok.sym s :: ts1 =>
      match infixOf s with
      | .cmp op =>
        match parseE T f (T.pcmp + 1) ts1 with
        | some (r, ts2) =>
          match links T f ts2 with
          | some (more, ts3) => some (.cons op r more, ts3)
          | none => none
        | none => none
      | _ => some (.nil, ts)
    | _ => some (.nil, ts)
def elems (T : Tbl) : Nat → Ctx → List Tok → Option (Elems × Bool × List Tok)
  | 0, _, _ => none
  | f+1, cx, ts =>
    match ts with
    | [] => none
    | t :: ts0 =>
      if t = Tok.sym (closeOf cx) then some (.nil, false, ts0)
      else
        match elem T f cx ts with
        | some (mk, Tok.sym s :: ts2) =>
          if s = .comma then
            match elems T f cx ts2 with
            | some (tl, tr, ts3) => some (mk tl, trailingOf tl tr, ts3)
            | none => none
          else if s = closeOf cx then some (mk .nil, false, ts2)
          else none
        | _ => none
def elem (T : Tbl) : Nat → Ctx → List Tok → Option ((Elems → Elems) × List Tok)
  | 0, _, _ => none
  | f+1, cx, ts =>
    match ts with
    | Tok.sym .star :: ts1 =>
      match parseE T f 0 ts1 with
      | some (e, ts2) => some (Elems.item .star e, ts2)
      | none => none
    | Tok.sym .dstar :: ts1 =>
      match parseE T f 0 ts1 with
      | some (e, ts2) => some (Elems.item .dstar e, ts2)
      | none => none
    | Tok.sym .colon :: ts1 => if cx = .index then sliceRest T f .none ts1 else none
    | _ =>
      match parseE T f 0 ts with
      | some (e, Tok.sym .assign :: ts2) =>
        match e with
        | .atom .name n =>
          match parseE T f 0 ts2 with
          | some (x, ts3) => some (Elems.kw n x, ts3)
          | none => none
        | _ => none
      | some (e, Tok.sym .colon :: ts2) =>
        if cx = .brace then
          match parseE T f 0 ts2 with
          | some (x, ts3) => some (Elems.kv e x, ts3)
          | none => none
        else if cx = .index then sliceRest T f (.some e) ts2
        else if cx = .lam then some (Elems.item .pos e, Tok.sym .colon :: ts2)
        else none
      | some (e, ts1) => some (Elems.item .pos e, ts1)
      | none => none
def sliceRest (T : Tbl) : Nat → OptE → List Tok → Option ((Elems → Elems) × List Tok)
  | 0, _, _ => none
  | f+1, lo, ts =>
    match ts with
    | Tok.sym .colon :: _ => sliceStep T f lo .none ts
    | Tok.sym .comma :: _ => sliceStep T f lo .none ts
    | Tok.sym .rbrk :: _ => sliceStep T f lo .none ts
    | _ =>
      match parseE T f 0 ts with
      | some (h, ts1) => sliceStep T f lo (.some h) ts1
      | none => none
def sliceStep (T : Tbl) : Nat → OptE → OptE → List Tok → Option ((Elems → Elems) × List Tok)
  | 0, _, _, _ => none
  | f+1, lo, hi, ts =>
    match ts with
    | Tok.sym .colon :: ts1 =>
      match parseE T f 0 ts1 with
      | some (s, ts2) => some (Elems.slice lo hi (.some s), ts2)
      | none => none
    | _ => some (Elems.slice lo hi .none, ts)
end

/-- the reader: enough fuel for any token list the printer can produce (see `Props`) -/
def parse (T : Tbl) (ts : List Tok) : Option Expr :=
  match parseE T (6 * ts.length + 6) 0 ts with
  | some (e, []) => some e
  | _ => none

/-! ### line protocol
`pr <par><casc><tup1><lam> <12 table numbers, comma separated> <term…>` → `ok <tokens>` and
`rt …` → `ok <tokens> | same|diff|fail` (does the reader return the tree?);
terms are in prefix notation (see `rdE`). -/
def akOf : String → Option AK
  | "name" => some .name | "int" => some .int | "float" => some .float | "imag" => some .imag
  | "str" => some .str | "bytes" => some .bytes | "const" => some .const | _ => none
def binOf : String → Option BinOp
  | "or" => some .or | "and" => some .and | "bor" => some .bor | "bxor" => some .bxor | "band" => some .band
  | "shl" => some .shl | "shr" => some .shr | "add" => some .add | "sub" => some .sub | "mul" => some .mul
  | "matmul" => some .matmul | "div" => some .div | "fdiv" => some .fdiv | "mod" => some .mod
  | "pow" => some .pow | _ => none
def cmpOf : String → Option CmpOp
  | "lt" => some .lt | "le" => some .le | "gt" => some .gt | "ge" => some .ge | "ne" => some .ne
  | "eq" => some .eq | "in" => some .isin | "notin" => some .notin | "is" => some .is
  | "isnot" => some .isnot | _ => none
def unOf : String → Option UnOp
  | "not" => some .not | "pos" => some .pos | "neg" => some .neg | "inv" => some .inv
  | "negf" => some .negf | _ => none
def dkOf : String → Option DK
  | "tuple" => some .tuple | "list" => some .list | "brace" => some .brace | _ => none

mutual
def rdE : Nat → List String → Option (Expr × List String)
  | 0, _ => none
  | f+1, ws =>
    match ws with
    | "A" :: k :: i :: r => do some (.atom (← akOf k) (← i.toNat?), r)
    | "U" :: o :: r => do let (x, r1) ← rdE f r; some (.un (← unOf o) x, r1)
    | "B" :: o :: r => do
        let (a, r1) ← rdE f r; let (b, r2) ← rdE f r1; some (.bin (← binOf o) a b, r2)
    | "C" :: o :: r => do
        let (a, r1) ← rdE f r; let (b, r2) ← rdE f r1; let (m, r3) ← rdLinks f r2
        some (.cmp a (← cmpOf o) b m, r3)
    | "Q" :: r => do
        let (a, r1) ← rdE f r; let (b, r2) ← rdE f r1; let (c, r3) ← rdE f r2; some (.cond a b c, r3)
    | "L" :: r => do let (ps, r1) ← rdEl f r; let (b, r2) ← rdE f r1; some (.lam ps b, r2)
    | "T" :: r => do
        let (b, r1) ← rdE f r
        match r1 with | n :: r2 => some (.attr b (← n.toNat?), r2) | [] => none
    | "F" :: r => do let (g, r1) ← rdE f r; let (a, r2) ← rdEl f r1; some (.call g a, r2)
    | "I" :: r => do let (g, r1) ← rdE f r; let (a, r2) ← rdEl f r1; some (.index g a, r2)
    | "D" :: k :: r => do let (a, r1) ← rdEl f r; some (.disp (← dkOf k) a, r1)
    | _ => none
def rdEl : Nat → List String → Option (Elems × List String)
  | 0, _ => none
  | f+1, ws =>
    match ws with
    | "]" :: r => some (.nil, r)
    | "[" :: r => rdEl f r
    | "P" :: r => do let (e, r1) ← rdE f r; let (tl, r2) ← rdEl f r1; some (.item .pos e tl, r2)
    | "S" :: r => do let (e, r1) ← rdE f r; let (tl, r2) ← rdEl f r1; some (.item .star e tl, r2)
    | "SS" :: r => do let (e, r1) ← rdE f r; let (tl, r2) ← rdEl f r1; some (.item .dstar e tl, r2)
    | "K" :: n :: r => do
        let (e, r1) ← rdE f r; let (tl, r2) ← rdEl f r1; some (.kw (← n.toNat?) e tl, r2)
    | "V" :: r => do
        let (k, r1) ← rdE f r; let (x, r2) ← rdE f r1; let (tl, r3) ← rdEl f r2; some (.kv k x tl, r3)
    | "X" :: r => do
        let (a, r1) ← rdO f r; let (b, r2) ← rdO f r1; let (c, r3) ← rdO f r2
        let (tl, r4) ← rdEl f r3; some (.slice a b c tl, r4)
    | _ => none
def rdO : Nat → List String → Option (OptE × List String)
  | 0, _ => none
  | f+1, ws =>
    match ws with
    | "N" :: r => some (.none, r)
    | "O" :: r => do let (e, r1) ← rdE f r; some (.some e, r1)
    | _ => none
def rdLinks : Nat → List String → Option (Links × List String)
  | 0, _ => none
  | f+1, ws =>
    match ws with
    | "." :: r => some (.nil, r)
    | o :: r => do let (e, r1) ← rdE f r; let (tl, r2) ← rdLinks f r1; some (.cons (← cmpOf o) e tl, r2)
    | [] => none
end

def akS : AK → String
  | .name => "name" | .int => "int" | .float => "float" | .imag => "imag" | .str => "str"
  | .bytes => "bytes" | .const => "const"
def binS : BinOp → String
  | .or => "or" | .and => "and" | .bor => "bor" | .bxor => "bxor" | .band => "band" | .shl => "shl"
  | .shr => "shr" | .add => "add" | .sub => "sub" | .mul => "mul" | .matmul => "matmul" | .div => "div"
  | .fdiv => "fdiv" | .mod => "mod" | .pow => "pow"
def cmpS : CmpOp → String
  | .lt => "lt" | .le => "le" | .gt => "gt" | .ge => "ge" | .ne => "ne" | .eq => "eq" | .isin => "in"
  | .notin => "notin" | .is => "is" | .isnot => "isnot"
def unS : UnOp → String
  | .not => "not" | .pos => "pos" | .neg => "neg" | .inv => "inv" | .negf => "negf"
def dkS : DK → String | .tuple => "tuple" | .list => "list" | .brace => "brace"

def symTable : List (String × Sym) :=
  [("+", .plus), ("-", .minus), ("*", .star), ("**", .dstar), ("/", .slash), ("//", .dslash),
   ("%", .percent), ("@", .at), ("&", .amp), ("|", .bar), ("^", .caret), ("~", .tilde), ("<<", .shl),
   (">>", .shr), ("<", .lt), ("<=", .le), (">", .gt), (">=", .ge), ("!=", .ne), ("==", .eq),
   ("in", .kin), ("not_in", .knotin), ("is", .kis), ("is_not", .kisnot), ("not", .knot),
   ("and", .kand), ("or", .kor), ("if", .kif), ("else", .kelse), ("lambda", .klambda),
   ("(", .lpar), (")", .rpar), ("[", .lbrk), ("]", .rbrk), ("{", .lbrc), ("}", .rbrc),
   (",", .comma), (":", .colon), (".", .dot), ("=", .assign)]

def symS (s : Sym) : String :=
  match symTable.find? (fun x => x.2 == s) with | some x => x.1 | none => "?"
def symOfS (w : String) : Option Sym := (symTable.find? (fun x => x.1 == w)).map (·.2)

def tokS : Tok → String
  | .sym s => symS s
  | .atom k i => s!"a:{akS k}:{i}"
def tokOfS (w : String) : Option Tok :=
  match w.splitOn ":" with
  | ["a", k, i] => do some (.atom (← akOf k) (← i.toNat?))
  | _ => (symOfS w).map Tok.sym
def toksS (ts : List Tok) : String := " ".intercalate (ts.map tokS)

mutual
def shE : Expr → String
  | .atom k i => s!"A {akS k} {i}"
  | .un o x => s!"U {unS o} {shE x}"
  | .bin o a b => s!"B {binS o} {shE a} {shE b}"
  | .cmp a o b m => s!"C {cmpS o} {shE a} {shE b} {shL m}"
  | .cond a b c => s!"Q {shE a} {shE b} {shE c}"
  | .lam ps b => s!"L [ {shEl ps} {shE b}"
  | .attr b n => s!"T {shE b} {n}"
  | .call g a => s!"F {shE g} [ {shEl a}"
  | .index g a => s!"I {shE g} [ {shEl a}"
  | .disp k a => s!"D {dkS k} [ {shEl a}"
def shEl : Elems → String
  | .nil => "]"
  | .item .pos e tl => s!"P {shE e} {shEl tl}"
  | .item .star e tl => s!"S {shE e} {shEl tl}"
  | .item .dstar e tl => s!"SS {shE e} {shEl tl}"
  | .kw n e tl => s!"K {n} {shE e} {shEl tl}"
  | .kv k x tl => s!"V {shE k} {shE x} {shEl tl}"
  | .slice a b c tl => s!"X {shO a} {shO b} {shO c} {shEl tl}"
def shO : OptE → String
  | .none => "N"
  | .some e => s!"O {shE e}"
def shL : Links → String
  | .nil => "."
  | .cons o e tl => s!"{cmpS o} {shE e} {shL tl}"
end

def varOf (w : String) : Option Var :=
  match w.toList with
  | [a, b, c, d] => some ⟨a == '1', b == '1', c == '1', d == '1'⟩
  | _ => none
def tblOf (w : String) : Option Tbl :=
  match (w.splitOn ",").map String.toNat? with
  | [some a, some b, some c, some d, some e, some f, some g, some h, some i, some j, some k, some l] =>
    some ⟨a, b, c, d, e, f, g, h, i, j, k, l⟩
  | _ => none

def handle : List String → String
  | "pr" :: vw :: tw :: ws =>
    match varOf vw, tblOf tw, rdE (ws.length + 1) ws with
    | some v, some T, some (e, []) => "ok " ++ toksS (printE T v e)
    | _, _, _ => "bad-op"
  | "rt" :: vw :: tw :: ws =>
    match varOf vw, tblOf tw, rdE (ws.length + 1) ws with
    | some v, some T, some (e, []) =>
      let ts := printE T v e
      match parse T ts with
      | some e' => "ok " ++ toksS ts ++ " | " ++ (if shE e' == shE e then "same" else "diff " ++ shE e')
      | none => "ok " ++ toksS ts ++ " | fail"
    | _, _, _ => "bad-op"
  | "parse" :: tw :: ws =>
    match tblOf tw, ws.mapM tokOfS with
    | some T, some ts =>
      match parse T ts with
      | some e => "ok " ++ shE e
      | none => "err SyntaxError"
    | _, _ => "bad-op"
  | _ => "bad-op"

end CyVerif.C25

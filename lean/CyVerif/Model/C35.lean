import CyVerif.Model.Util
/-!
# C35 — model of `Cython/Compiler/Code.py: FunctionState` temp handling

State machine over `allocate_temp(type, manage_ref, static, reusable)`,
`release_temp(name)` and the queries `temps_in_use`, `temps_holding_reference`,
`all_managed_temps`, `all_free_managed_temps`.

* A temp name `__pyx_t_<n>` is the number `n`.
* `temps_allocated` is a list (allocation order), `temps_free` an association
  list `(type, manage_ref) ↦ (list, set)` in dict insertion order,
  `temps_used_type` an association list `name ↦ (type, manage_ref)`,
  `zombie_temps` / `names_taken` lists used as sets.
* A type is a flat record: leaf id, `needs_refcounting` of the leaf, "leaf is a
  C function", const/volatile flag, reference wrapper (0 none, 1 `&`, 2 fake
  reference, 3 `&&`), "pointer to the rest".  `canon` is the normalisation at
  the top of `allocate_temp` (attribute delegation of the wrapper classes
  included).
-/
namespace CyVerif.C35

structure Ty where
  id : Nat
  refc : Bool
  func : Bool
  cv : Bool
  wrap : Nat
  ptr : Bool
  deriving DecidableEq, Repr

def Ty.isCv (t : Ty) : Bool := t.cv && !t.ptr
def Ty.isRef (t : Ty) : Bool := (t.wrap == 1 || t.wrap == 2) && !t.ptr
def Ty.isFake (t : Ty) : Bool := t.wrap == 2 && !t.ptr
def Ty.isCFunc (t : Ty) : Bool := t.func && !t.ptr
/-- `type.needs_refcounting` (delegated through qualifiers / references; a pointer never is) -/
def Ty.needsRefcounting (t : Ty) : Bool := t.refc && !t.ptr

/-- the `if type.is_cv_qualified and not type.is_reference … elif … elif type.is_cfunction` chain -/
def canon (t : Ty) : Ty :=
  if t.isCv && !t.isRef then { t with cv := false, wrap := 0 }
  else if t.isRef && !t.isFake then { t with wrap := 0 }
  else if t.isCFunc then { t with ptr := true }
  else t

abbrev Key := Ty × Bool

/-- one entry of `temps_allocated`: `(name, type, manage_ref, static)` -/
structure Temp where
  name : Nat
  ty : Ty
  manage : Bool
  static : Bool
  deriving DecidableEq, Repr

def Temp.key (t : Temp) : Key := (t.ty, t.manage)

/-- one value of `temps_free`: `([names in release order], {names})` -/
structure FreeList where
  order : List Nat
  members : List Nat
  deriving DecidableEq, Repr

structure FS where
  taken : List Nat
  counter : Nat
  allocated : List Temp
  free : List (Key × FreeList)
  usedType : List (Nat × Key)
  zombies : List Nat
  collect : List (List Nat)   -- `collect_temps_stack` (innermost first), sets as duplicate-free lists
  deriving Repr, DecidableEq

def FS.init (taken : List Nat) : FS := ⟨taken, 0, [], [], [], [], []⟩

/-- `if self.collect_temps_stack: self.collect_temps_stack[-1].add(result)` -/
def collectAdd (c : List (List Nat)) (n : Nat) : List (List Nat) :=
  match c with
  | [] => []
  | top :: rest => (if n ∈ top then top else top ++ [n]) :: rest

/-- association-list `d[k] = v`: in place if the key exists, appended otherwise (dict order) -/
def aset {α β} [DecidableEq α] : List (α × β) → α → β → List (α × β)
  | [], k, v => [(k, v)]
  | p :: l, k, v => if p.1 = k then (k, v) :: l else p :: aset l k v

/-- `d.get(k)` -/
def aget {α β} [DecidableEq α] : List (α × β) → α → Option β
  | [], _ => none
  | p :: l, k => if p.1 = k then some p.2 else aget l k

def maxOf (l : List Nat) : Nat := l.foldr max 0

/-- `while True: counter += 1; if name not in names_taken: break` — returns the new counter.
Fuel `maxOf taken - c` always suffices (`nextName_spec`). -/
def nextNameGo (taken : List Nat) : Nat → Nat → Nat
  | 0, c => c + 1
  | f + 1, c => if (c + 1) ∈ taken then nextNameGo taken f (c + 1) else c + 1

def nextName (taken : List Nat) (c : Nat) : Nat := nextNameGo taken (maxOf taken - c) c

/-- the `else` branch of `allocate_temp`: a new name -/
def allocFresh (s : FS) (ty : Ty) (manage static reusable : Bool) : FS × Nat :=
  let n := nextName s.taken s.counter
  ({ s with counter := n,
            allocated := s.allocated ++ [⟨n, ty, manage, static⟩],
            zombies := if reusable then s.zombies else s.zombies ++ [n],
            usedType := aset s.usedType n (ty, manage),
            collect := collectAdd s.collect n }, n)

/-- `result = freelist[0].pop(); freelist[1].remove(result)` -/
def allocReuse (s : FS) (k : Key) (fl : FreeList) (n : Nat) : FS × Nat :=
  ({ s with free := aset s.free k ⟨fl.order.dropLast, fl.members.erase n⟩,
            usedType := aset s.usedType n k,
            collect := collectAdd s.collect n }, n)

/-- `reusable and freelist is not None and freelist[0]` -/
def reuseCandidate (s : FS) (k : Key) (reusable : Bool) : Option (FreeList × Nat) :=
  if reusable then
    match aget s.free k with
    | some fl => fl.order.getLast?.map (fun n => (fl, n))
    | none => none
  else none

/-- `allocate_temp`: new state and the name handed out -/
def allocate (s : FS) (ty0 : Ty) (manage0 static reusable : Bool) : FS × Nat :=
  let ty := canon ty0
  let manage := if ty.needsRefcounting then manage0 else false
  match reuseCandidate s (ty, manage) reusable with
  | some (fl, n) => allocReuse s (ty, manage) fl n
  | none => allocFresh s ty manage static reusable

/-- `release_temp`; `KeyError` for a name never handed out, `RuntimeError` when freed twice -/
def release (s : FS) (n : Nat) : Res FS :=
  match aget s.usedType n with
  | none => .err "KeyError"
  | some k =>
    let fl := (aget s.free k).getD ⟨[], []⟩
    if n ∈ fl.members then .err "RuntimeError"
    else
      let order := if n ∈ s.zombies then fl.order else fl.order ++ [n]
      .ok { s with free := aset s.free k ⟨order, fl.members ++ [n]⟩ }

/-- `start_collecting_temps` / `stop_collecting_temps` -/
def startCollect (s : FS) : FS := { s with collect := [] :: s.collect }
def stopCollect (s : FS) : Res (FS × List Nat) :=
  match s.collect with
  | [] => .err "IndexError"
  | top :: rest => .ok ({ s with collect := rest }, top)

def isFree (s : FS) (t : Temp) : Bool :=
  match aget s.free t.key with
  | none => false
  | some fl => t.name ∈ fl.members

/-- `temps_in_use()`: `(name, type, manage_ref and type.needs_refcounting)` in allocation order -/
def inUse (s : FS) : List Temp := s.allocated.filter (fun t => !isFree s t)

def inUseNames (s : FS) : List Nat := (inUse s).map (·.name)

/-- `temps_holding_reference()` (names) -/
def holdingRef (s : FS) : List Nat :=
  ((inUse s).filter (fun t => (t.manage && t.ty.needsRefcounting) && t.ty.needsRefcounting)).map (·.name)

/-- `all_managed_temps()` (names, allocation order): the function-level error-cleanup set -/
def allManaged (s : FS) : List Nat := (s.allocated.filter (·.manage)).map (·.name)

/-- `all_free_managed_temps()` before sorting -/
def freeManagedRaw (s : FS) : List Nat :=
  (s.free.filter (fun p => p.1.2)).flatMap (fun p => p.2.order)

/-- sorted as Python sorts the names (strings `__pyx_t_<n>`: decimal text order) -/
def freeManaged (s : FS) : List Nat :=
  (freeManagedRaw s).mergeSort (fun a b => decide (toString a ≤ toString b))

/-- released non-reusable managed temps: in the set of their free list but not in its list -/
def deadManaged (s : FS) : List Nat :=
  (s.free.filter (fun p => p.1.2)).flatMap (fun p => p.2.members.filter (fun n => n ∉ p.2.order))

end CyVerif.C35

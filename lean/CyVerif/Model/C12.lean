import CyVerif.Model.Util
import Std.Data.HashMap
/-!
Model of the module string-table compression of Cython:

* `Cython/LZSS.py : lzss_compress`        → `compress`
* `Cython/Utility/StringTools.c : __pyx_lzss_decompress` → `decompress`
* the size guard of `Cython/Compiler/Code.py : generate_string_constants`
  (`if compressed_size > len(concat_bytes) - 200: continue`) → `selected`

Bytes are `Nat`s (the theorems carry `< 256` where it matters).  Every Python
operation that can raise is modelled with its exception (`IndexError` for an
out-of-range subscript, `ValueError` for `bytearray.append(v)` with
`v ∉ range(256)`); every C memory access is bounds-checked and an access outside
`src[0 .. src_len)` / `dst[0 .. dst_len)` is the outcome `ub …`.

The decision thresholds of the compressor are parameters (`Params`), extracted
from the current source on every run; the byte layout of the three
back-reference encodings is fixed in `encTok` / `dloop`.
-/
namespace CyVerif.C12

/-- Constants of `lzss_compress` that only steer *which* token is chosen. -/
structure Params where
  /-- `WINDOW_SIZE = (1 << 14) + 128` -/
  window : Nat
  /-- `255 + 3` in `MAX_MATCH = min(255 + 3, input_size - pos)` -/
  maxMatch : Nat
  /-- `0x7F` in `elif offset <= 0x7F` -/
  shortMax : Nat
  /-- `1 << 5` in `length_bits < (1 << 5)` -/
  midLenLim : Nat
  /-- `1 << 9` in `offset < (1 << 9)` -/
  midOffLim : Nat
  /-- `1 << 14` in `offset < (1 << 14)` -/
  longOffLim : Nat
  /-- `200` in `compressed_size > len(concat_bytes) - 200` (Code.py) -/
  selectMargin : Nat
  deriving Repr, DecidableEq

/-- What the proofs need of the constants.  The window itself is unconstrained (a match
that no encoding can hold falls back to a literal); the 14-bit offset limit may be replaced
by a window that never produces larger offsets. -/
def WF (P : Params) : Prop :=
  P.maxMatch ≤ 258 ∧ P.shortMax = 0x7F ∧ P.midLenLim ≤ 32 ∧ P.midOffLim ≤ 512 ∧
  (P.longOffLim ≤ 16384 ∨ P.window ≤ 0x80 + 16384) ∧ 1 ≤ P.selectMargin

instance (P : Params) : Decidable (WF P) := by unfold WF; infer_instance

/-- The constants of the pinned tree. -/
def pinned : Params :=
  { window := (1 <<< 14) + 128, maxMatch := 255 + 3, shortMax := 0x7F, midLenLim := 1 <<< 5,
    midOffLim := 1 <<< 9, longOffLim := 1 <<< 14, selectMargin := 200 }

/-! ## Tokens and their byte encodings (the stream format) -/

/-- One item of the compressed stream.  `off` is the decoder's
`end_offset_of_last_occurrence` (distance from the END of the earlier occurrence
to the current output position), `len` the true match length. -/
inductive Token where
  | lit (b : Nat)
  | short (off len : Nat)   -- 7 bit offset, 8 bit length
  | mid (off len : Nat)     -- 2+7 bit offset (+0x80), 5 bit length
  | long (off len : Nat)    -- 7+7 bit offset (+0x80), 8 bit length
  deriving Repr, DecidableEq

namespace Token
def isLit : Token → Bool
  | lit _ => true
  | _ => false

/-- number of output bytes the token stands for -/
def len : Token → Nat
  | lit _ => 1
  | short _ l => l
  | mid _ l => l
  | long _ l => l

def off : Token → Nat
  | lit _ => 0
  | short o _ => o
  | mid o _ => o
  | long o _ => o
end Token

/-- Bytes appended to the output for a token (without its flag bit), exactly the
`output.append(...)` calls of the corresponding branch of `lzss_compress`. -/
def encTok : Token → List Nat
  | .lit b => [b]
  | .short off len => [off, len - 3]
  | .mid off len =>
      let o := off - 0x80
      [(o &&& 0x7F) ||| 0x80, ((o &&& 0x180) >>> 2) ||| (len - 3)]
  | .long off len =>
      let o := off - 0x80
      [o &&& 0x7F ||| 0x80, (o >>> 7) &&& 0x7F ||| 0x80, len - 3]

/-- Flag byte of a group of at most 8 tokens: bit i (LSB first) = token i is a literal. -/
def flagByte : List Token → Nat
  | [] => 0
  | t :: ts => (if t.isLit then 1 else 0) + 2 * flagByte ts

def emitGroup (g : List Token) : List Nat := flagByte g :: g.flatMap encTok

/-- The stream format: tokens in groups of 8, each group preceded by its flag byte. -/
def emit (ts : List Token) : List Nat :=
  if ts = [] then [] else emitGroup (ts.take 8) ++ emit (ts.drop 8)
termination_by ts.length
decreasing_by
  cases ts with
  | nil => contradiction
  | cons a l => simp only [List.drop_succ_cons, List.length_drop, List.length_cons]; omega

/-- Effect of a token on the decoded output. -/
def applyTok (out : List Nat) : Token → List Nat
  | .lit b => out ++ [b]
  | t => out ++ ((out.drop (out.length - t.off - t.len)).take t.len)

def expand (ts : List Token) : List Nat := ts.foldl applyTok []

/-- A token is well formed for the stream format when the output already holds `m`
bytes: its fields fit the bit fields of its encoding and the referenced bytes exist. -/
def TokOK (m : Nat) : Token → Prop
  | .lit b => b < 256
  | .short off len => off ≤ 0x7F ∧ 3 ≤ len ∧ len ≤ 258 ∧ off + len ≤ m
  | .mid off len => 0x80 ≤ off ∧ off < 0x80 + 512 ∧ 3 ≤ len ∧ len < 3 + 32 ∧ off + len ≤ m
  | .long off len => 0x80 ≤ off ∧ off < 0x80 + 16384 ∧ 3 ≤ len ∧ len ≤ 258 ∧ off + len ≤ m

/-- Well-formed token list, starting with `m` bytes of output already present. -/
def ToksOK : Nat → List Token → Prop
  | _, [] => True
  | m, t :: ts => TokOK m t ∧ ToksOK (m + t.len) ts

/-! ## The decompressor (`__pyx_lzss_decompress`) -/

inductive DRes where
  | ok (out : Array Nat) (pos : Nat)
  | ub (kind : String)
  | fuel
  deriving Repr, DecidableEq

/-- After a token: `if (out_pos >= dst_len) return pos; flags >>= 1;` then the loops.
All source accesses of the C function are `src[pos++]`, so the source is modelled as
the list of bytes not yet read plus the count `pos` of bytes read; reading from `[]`
is a read at `src[src_len]`.  `flags &&& 0x100 = 0` is the exit of the inner `while`
(the outer `while (1)` then loads the next flag byte). -/
def dloop (dstLen : Nat) : Nat → List Nat → Nat → Array Nat → Nat → DRes
  | 0, _, _, _, _ => .fuel
  | fuel + 1, rest, pos, out, flags =>
    if flags &&& 0x100 = 0 then
      -- uint32_t flags = src[pos++] | 0xFF00;
      match rest with
      | [] => .ub "src-read"
      | b :: rest => dloop dstLen fuel rest (pos + 1) out (b ||| 0xFF00)
    else if flags &&& 1 ≠ 0 then
      -- dst[out_pos++] = src[pos++];
      match rest with
      | [] => .ub "src-read"
      | b :: rest =>
        if out.size < dstLen then
          let out := out.push b
          if out.size ≥ dstLen then .ok out (pos + 1)
          else dloop dstLen fuel rest (pos + 1) out (flags >>> 1)
        else .ub "dst-write"
    else
      -- uint32_t lo = src[pos++], hi = src[pos++];
      match rest with
      | [] => .ub "src-read"
      | [_] => .ub "src-read"
      | lo :: hi :: rest =>
        let fin (off len : Nat) (rest : List Nat) (pos : Nat) : DRes :=
          let len := len + 3
          -- size_t ref_pos = out_pos - end_offset_of_last_occurrence - match_length;
          if out.size < off + len then .ub "dst-read"      -- ref_pos wraps around
          else if dstLen < out.size + len then .ub "dst-write"
          else
            let refPos := out.size - off - len
            -- memcpy(dst + out_pos, dst + ref_pos, match_length)  (ref_pos + len ≤ out_pos: no overlap)
            let out := out ++ out.extract refPos (refPos + len)
            if out.size ≥ dstLen then .ok out pos
            else dloop dstLen fuel rest pos out (flags >>> 1)
        if lo &&& 0x80 = 0 then
          fin lo hi rest (pos + 2)
        else if hi &&& 0x80 = 0 then
          fin (0x80 + (((hi <<< 2) &&& 0x180) ||| (lo &&& 0x7F))) (hi &&& 0x1F) rest (pos + 2)
        else
          match rest with
          | [] => .ub "src-read"
          | l3 :: rest =>
            fin (0x80 + ((hi &&& 0x7F) <<< 7 ||| (lo &&& 0x7F))) l3 rest (pos + 3)

/-- `__pyx_lzss_decompress(src, dst, dst_len)` on a source buffer holding exactly `src`
and a destination buffer of exactly `dstLen` bytes.  `.ok out pos`: returned `pos`,
`dst[0..out.size)` written.  Every call of `dloop` reads at least one byte or stops, so
`src.length + 1` iterations always suffice (`decompress_ne_fuel`). -/
def decompress (src : List Nat) (dstLen : Nat) : DRes :=
  dloop dstLen (src.length + 1) src 0 #[] 0

/-! ## The compressor (`lzss_compress`) -/

abbrev Key := Option Nat × Option Nat × Option Nat

/-- `data[pos:pos+3]` (a slice may be shorter than 3 at the end of the data). -/
def key3 (d : Array Nat) (pos : Nat) : Key := (d[pos]?, d[pos + 1]?, d[pos + 2]?)

abbrev Table := Std.HashMap Key (List Nat)

/-- `while match_len < max_len and data[a + match_len] == data[b + match_len]: match_len += 1`
with `k = max_len - match_len` iterations left. -/
def ext (d : Array Nat) (a b : Nat) : Nat → Nat → Res Nat
  | 0, m => .ok m
  | k + 1, m =>
    match d[a + m]?, d[b + m]? with
    | some x, some y => if x = y then ext d a b k (m + 1) else .ok m
    | _, _ => .err "IndexError"

/-- first candidate loop of `find_longest_match`; state `(best_len, best_offset)` -/
def scan1 (P : Params) (d : Array Nat) (pos maxMatch wstart : Nat) :
    List Nat → Nat × Nat → Res (Nat × Nat)
  | [], st => .ok st
  | p :: ps, (bl, bo) =>
    if p < wstart ∨ p ≥ pos then scan1 P d pos maxMatch wstart ps (bl, bo)
    else
      match ext d p pos (min maxMatch (pos - p) - 3) 3 with
      | .err e => .err e
      | .ok m =>
        if m > bl ∧ (pos : Int) - p - m < P.window then
          scan1 P d pos maxMatch wstart ps (m, pos - p)
        else scan1 P d pos maxMatch wstart ps (bl, bo)

/-- lazy-matching candidate loop; state `next_best_len` -/
def scan2 (P : Params) (d : Array Nat) (pos maxMatch wstart : Nat) : List Nat → Nat → Res Nat
  | [], nb => .ok nb
  | p :: ps, nb =>
    if p < wstart then scan2 P d pos maxMatch wstart ps nb
    else
      -- min(MAX_MATCH, pos - prev_pos, input_size - pos - 1); a non-positive bound runs no iteration
      let maxLen := min (min maxMatch (pos - p)) (d.size - pos - 1)
      match ext d p (pos + 1) (maxLen - 3) 3 with
      | .err e => .err e
      | .ok m =>
        if m > nb ∧ (pos : Int) - p - nb < P.window then scan2 P d pos maxMatch wstart ps m
        else scan2 P d pos maxMatch wstart ps nb

/-- `find_longest_match(pos)` → `(best_offset, best_len)` -/
def flm (P : Params) (d : Array Nat) (tbl : Table) (pos : Nat) : Res (Nat × Nat) :=
  let n := d.size
  if pos + 3 > n then .ok (0, 0) else
  let maxMatch := min P.maxMatch (n - pos)
  let wstart := pos - P.window - maxMatch
  match tbl[key3 d pos]? with
  | none => .ok (0, 0)
  | some l =>
    match scan1 P d pos maxMatch wstart l (0, 0) with
    | .err e => .err e
    | .ok (bl, bo) =>
      if 0 < bl ∧ bl < maxMatch then
        match tbl[key3 d (pos + 1)]? with
        | none => .ok (bo, bl)
        | some l2 =>
          if pos + bl + 1 < n then
            match scan2 P d pos maxMatch (pos + 1 - P.window - maxMatch) l2 0 with
            | .err e => .err e
            | .ok nb => if nb > bl + 1 then .ok (0, 0) else .ok (bo, bl)
          else .ok (bo, bl)
      else .ok (bo, bl)

/-- The branch taken for `(offset, length) = find_longest_match(pos)`;
second component: the `stats[4]` fallback (match found but not encodable). -/
def choose (P : Params) (offset length lit : Nat) : Token × Bool :=
  if length < 3 ∨ offset < length then (.lit lit, false)
  else
    let off := offset - length
    if off ≤ P.shortMax then (.short off length, false)
    else
      let o := off - 0x80
      let lb := length - 3
      if lb < P.midLenLim ∧ o < P.midOffLim then (.mid off length, false)
      else if length > 3 ∧ o < P.longOffLim then (.long off length, false)
      else (.lit lit, true)

/-- `bytearray.append` for each byte -/
def pushAll (out : Array Nat) : List Nat → Res (Array Nat)
  | [] => .ok out
  | b :: bs => if b < 256 then pushAll (out.push b) bs else .err "ValueError"

structure CState where
  pos : Nat
  out : Array Nat
  flagsPos : Nat
  flags : Nat
  toks : Array Token      -- ghost: the tokens emitted so far
  fallbacks : Nat         -- ghost: `stats[4]`

/-- tail of the loop body: `pos += length; flags = (flag << 7) | (flags >> 1);
if flags < 0x10000: output[flags_pos] = flags & 0xFF; flags_pos = len(output);
output.append(0); flags = 0xFF0000` -/
def advance (pos flagsPos flags : Nat) (toks : Array Token) (fallbacks : Nat)
    (tok : Token) (fb : Bool) (out : Array Nat) : Res CState :=
  let flags := ((if tok.isLit then 1 else 0) <<< 7) ||| (flags >>> 1)
  let toks := toks.push tok
  let fbs := fallbacks + (if fb then 1 else 0)
  if flags < 0x10000 then
    if h : flagsPos < out.size then
      .ok { pos := pos + tok.len, out := (out.set flagsPos (flags &&& 0xFF) h).push 0,
            flagsPos := out.size, flags := 0xFF0000, toks := toks, fallbacks := fbs }
    else .err "IndexError"
  else
    .ok { pos := pos + tok.len, out := out, flagsPos := flagsPos, flags := flags,
          toks := toks, fallbacks := fbs }

/-- one iteration of `while pos < input_size` (the state record is taken apart first so
that the compiled driver updates the arrays and the table in place) -/
def cstep (P : Params) (d : Array Nat) (tbl : Table) (st : CState) : Res (Table × CState) :=
  match st with
  | { pos, out, flagsPos, flags, toks, fallbacks } =>
    match flm P d tbl pos with
    | .err e => .err e
    | .ok ol =>
      -- hash_table[data[pos:pos+3]].append(pos)
      let key := key3 d pos
      let tbl := tbl.insert key (tbl.getD key [] ++ [pos])
      match d[pos]? with
      | none => .err "IndexError"
      | some lit =>
        let c := choose P ol.1 ol.2 lit
        match pushAll out (encTok c.1) with
        | .err e => .err e
        | .ok out =>
          match advance pos flagsPos flags toks fallbacks c.1 c.2 out with
          | .err e => .err e
          | .ok st' => .ok (tbl, st')

def cloop (P : Params) (d : Array Nat) : Nat → Table → CState → Res CState
  | 0, _, st => if st.pos < d.size then .err "fuel" else .ok st
  | fuel + 1, tbl, st =>
    if st.pos < d.size then
      match cstep P d tbl st with
      | .err e => .err e
      | .ok (tbl', st') => cloop P d fuel tbl' st'
    else .ok st

/-- `while flags >= 0x10000: flags >>= 1` -/
def padFlags : Nat → Nat → Nat
  | 0, f => f
  | k + 1, f => if f ≥ 0x10000 then padFlags k (f >>> 1) else f

def cinit : CState :=
  { pos := 0, out := #[0], flagsPos := 0, flags := 0xFF0000, toks := #[], fallbacks := 0 }

/-- `lzss_compress(data)` together with the ghost state (tokens, fallback count).
Every iteration advances `pos` by at least 1, so `d.size` iterations suffice. -/
def compressSt (P : Params) (d : Array Nat) : Res (Array Nat × CState) :=
  if d.size = 0 then .ok (#[], cinit) else
  match cloop P d d.size {} cinit with
  | .err e => .err e
  | .ok st =>
    if st.flagsPos + 1 = st.out.size then .ok (st.out.pop, st)
    else
      let flags := padFlags st.flags st.flags
      if h : st.flagsPos < st.out.size then .ok (st.out.set st.flagsPos (flags &&& 0xFF) h, st)
      else .err "IndexError"

def compress (P : Params) (d : Array Nat) : Res (Array Nat) :=
  match compressSt P d with
  | .err e => .err e
  | .ok (c, _) => .ok c

/-- Code.py: the LZSS variant is emitted unless `compressed_size > len(concat_bytes) - 200`. -/
def selected (P : Params) (n c : Nat) : Prop := ¬ ((c : Int) > (n : Int) - P.selectMargin)

instance (P : Params) (n c : Nat) : Decidable (selected P n c) := by unfold selected; infer_instance

/-! ## line protocol -/

def kindCounts (toks : Array Token) (fallbacks : Nat) : List Nat :=
  let c := toks.foldl (fun (c : Nat × Nat × Nat × Nat) t =>
    match t with
    | .lit _ => (c.1 + 1, c.2)
    | .short _ _ => (c.1, c.2.1 + 1, c.2.2)
    | .mid _ _ => (c.1, c.2.1, c.2.2.1 + 1, c.2.2.2)
    | .long _ _ => (c.1, c.2.1, c.2.2.1, c.2.2.2 + 1)) (0, 0, 0, 0)
  [c.1 - fallbacks, c.2.1, c.2.2.1, c.2.2.2, fallbacks]

def parseParams (s : String) : Option Params :=
  match (s.splitOn ",").map String.toNat? with
  | [some w, some mm, some s, some ml, some mo, some lo, some sm] =>
    some { window := w, maxMatch := mm, shortMax := s, midLenLim := ml, midOffLim := mo,
           longOffLim := lo, selectMargin := sm }
  | _ => none

def handle : List String → String
  | ["comp", ps, hex] =>
    match parseParams ps, parseHexBytes hex with
    | some P, some d =>
      if d.all (· < 256) then
        match compressSt P d.toArray with
        | .ok (c, st) => s!"ok {bytesToHex c.toList} {natsToStr (kindCounts st.toks st.fallbacks)}"
        | .err e => s!"err {e}"
      else "bad-op"
    | _, _ => "bad-op"
  | ["decomp", hex, n] =>
    match parseHexBytes hex, parseNat? n with
    | some s, some n =>
      match decompress s n with
      | .ok out pos => s!"ok {bytesToHex out.toList} {pos}"
      | .ub k => s!"ub {k}"
      | .fuel => "err fuel"
    | _, _ => "bad-op"
  | ["selected", ps, n, c] =>
    match parseParams ps, parseNat? n, parseNat? c with
    | some P, some n, some c => if selected P n c then "ok 1" else "ok 0"
    | _, _, _ => "bad-op"
  | _ => "bad-op"

end CyVerif.C12

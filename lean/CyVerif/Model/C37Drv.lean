import CyVerif.Model.C37Exit
import Std.Data.HashSet
/-! Line-protocol driver for the C37 models. -/
namespace CyVerif.C37

def splitList (s : String) (sep : String) : List String :=
  if s == "-" then [] else s.splitOn sep

def parseNats (s : String) : Option (List Nat) := (splitList s ",").mapM parseNat?
def parseInts (s : String) : Option (List Int) := (splitList s ",").mapM parseInt?

def parseOp : String → Option Op
  | "add" => some .add | "mul" => some .mul | "sub" => some .sub
  | "and" => some .band | "or" => some .bor | "xor" => some .bxor
  | _ => none

def parseAsg (s : String) : Option (List (Option Int)) :=
  (splitList s ",").mapM fun x => if x == "_" then some none else (parseInt? x).map some

def parseSched (s : String) : Option (List (Nat × Nat)) :=
  (splitList s ",").mapM fun x => match x.splitOn ":" with
    | [a, b] => do pure ((← parseNat? a), (← parseNat? b))
    | _ => none

def mkBody (w : Nat) (op : Op) (start step : Int) (g : List Nat) (asg : List (Option Int))
    (aidx : List Nat) (aval : List Int) : Body w :=
  { op := op, g := fun k => BitVec.ofNat w (g.getD k 0), asg := fun k => (asg.getD k none),
    start := start, step := step, aidx := fun k => aidx.getD k 0, aval := fun k => aval.getD k 0 }

def renderVars {w} (v : Vars w) : String :=
  s!"ok {v.red.toNat} {v.lp} {v.idx} {intsToStr v.arr}"

def handleLoop (par : Bool) (args : List String) : String :=
  match args with
  | w :: op :: nN :: red0 :: lp0 :: i0 :: start :: step :: g :: asg :: aidx :: aval :: arr :: rest =>
    match parseNat? w, parseOp op, parseNat? nN, parseNat? red0, parseInt? lp0, parseInt? i0, parseInt? start,
          parseInt? step, parseNats g, parseAsg asg, parseNats aidx, parseInts aval, parseInts arr with
    | some w, some op, some nN, some red0, some lp0, some i0, some start, some step, some g, some asg,
      some aidx, some aval, some arr =>
      let b := mkBody w op start step g asg aidx aval
      let s : Vars w := { red := BitVec.ofNat w red0, lp := lp0, idx := i0, arr := arr }
      if g.length != nN || asg.length != nN || aidx.length != nN || aval.length != nN then "bad-op"
      else if aidx.any (fun j => j ≥ arr.length) then "ub oob"
      else if !par then (if rest.isEmpty then renderVars (seqRun b s nN) else "bad-op")
      else match rest with
        | [sched, merge] =>
          match parseSched sched, parseNats merge with
          | some sched, some merge => renderVars (parRun b s nN sched merge)
          | _, _ => "bad-op"
        | _ => "bad-op"
    | _, _, _, _, _, _, _, _, _, _, _, _, _ => "bad-op"
  | _ => "bad-op"

def parseKinds (s : String) : Option (List Kind) :=
  (if s == "-" then [] else s.toList).mapM fun
    | 'c' => some Kind.cont | 'b' => some .brk | 'r' => some .ret | 'x' => some .raise | _ => none

def parseParts (s : String) : Option (List (List Nat)) := (s.splitOn "|").mapM parseNats

def parseActs (s : String) : Option (List (Nat × Bool)) :=
  (splitList s ",").mapM fun x =>
    if x.endsWith "s" then (parseNat? (x.dropEnd 1).toString).map (·, true) else (parseNat? x).map (·, false)

def parseBool : String → Option Bool
  | "1" => some true | "0" => some false | _ => none

def sortN (l : List Nat) : List Nat := l.mergeSort (· ≤ ·)
def optStr : Option Nat → String
  | some v => toString v | none => "none"
def Outcome.render : Outcome → String
  | .raise e => "raise:" ++ optStr e
  | .ret v => "ret:" ++ optStr v
  | .fall w => s!"fall:{w}"

def renderFinal (st : St) (o : Outcome) : String :=
  s!"{o.render} ran={natsToStr (sortN st.ran)} rel={natsToStr (sortN st.released)} cur0={optStr (st.cur 0)} slot={optStr st.slot}"

def pcStr : PC → String
  | .idle => "i" | .setWhy c => s!"w{c}" | .writeRet v => s!"r{v}" | .fetch => "f" | .finished => "z"

def stKey (c : Cfg) (st : St) : String :=
  let ths := (List.range c.n).map fun t => s!"{natsToStr (st.todo t)}{pcStr (st.pc t)}{optStr (st.cur t)}"
  s!"{ths}|{optStr st.slot}|{st.why}|{optStr st.ret}|{sortN st.released}|{sortN st.ran}|{sortN st.skipped}"

def succs (c : Cfg) (st : St) : List St :=
  (List.range c.n).flatMap fun t => [false, true].filterMap fun sk => step c st t sk

/-- exhaustive exploration of all interleavings (fuel-bounded worklist, visited set) -/
def explore (c : Cfg) (fin : St → Option (St × Outcome)) :
    Nat → List St → Std.HashSet String → Std.HashSet String → Option (Std.HashSet String)
  | _, [], _, finals => some finals
  | 0, _ :: _, _, _ => none
  | fuel + 1, st :: stack, seen, finals =>
    let key := stKey c st
    if seen.contains key then explore c fin fuel stack seen finals
    else
      let seen := seen.insert key
      match fin st with
      | some (st', o) => explore c fin fuel stack seen (finals.insert (renderFinal st' o))
      | none => explore c fin fuel (succs c st ++ stack) seen finals

def strSort (l : List String) : List String := l.mergeSort (fun a b => decide (a ≤ b))

def handleExit (args : List String) : String :=
  match args with
  | op :: g :: p :: kinds :: parts :: rest =>
    match parseBool g, parseBool p, parseKinds kinds, parseParts parts with
    | some g, some p, some kinds, some parts =>
      let c : Cfg := { n := parts.length, kinds := fun k => kinds.getD k .cont, guarded := g, preferErr := p }
      if parts.flatten.any (fun k => k ≥ kinds.length) then "bad-op" else
      match op, rest with
      | "exit", [acts] =>
        match parseActs acts with
        | some acts =>
          match runActs c (initSt parts) acts with
          | some st => match finish c st with
            | some (st', o) => "ok " ++ renderFinal st' o
            | none => "err unfinished"
          | none => "err stuck"
        | none => "bad-op"
      | "reach", [] =>
        match explore c (finish c) 4000000 [initSt parts] {} {} with
        | some finals => "ok " ++ ";".intercalate (strSort finals.toList)
        | none => "err fuel"
      | _, _ => "bad-op"
    | _, _, _, _ => "bad-op"
  | _ => "bad-op"

/-- `reachE guarded fixup caseRet caseErr kinds parts`: all interleavings, epilogue as emitted for a static shape -/
def handleReachE (args : List String) : String :=
  match args with
  | [g, f, cr, ce, kinds, parts] =>
    match parseBool g, parseBool f, parseBool cr, parseBool ce, parseKinds kinds, parseParts parts with
    | some g, some f, some cr, some ce, some kinds, some parts =>
      let c : Cfg := { n := parts.length, kinds := fun k => kinds.getD k .cont, guarded := g, preferErr := f }
      let e : Emit := { fixup := f, caseRet := cr, caseErr := ce }
      if parts.flatten.any (fun k => k ≥ kinds.length) then "bad-op" else
      match explore c (finishEmit e c) 4000000 [initSt parts] {} {} with
      | some finals => "ok " ++ ";".intercalate (strSort finals.toList)
      | none => "err fuel"
    | _, _, _, _, _, _ => "bad-op"
  | _ => "bad-op"

def parseOutcome (s : String) : Option Outcome :=
  match s.splitOn ":" with
  | ["raise", "none"] => some (.raise none)
  | ["raise", e] => (parseNat? e).map fun e => .raise (some e)
  | ["ret", "none"] => some (.ret none)
  | ["ret", v] => (parseNat? v).map fun v => .ret (some v)
  | ["fall", w] => (parseNat? w).map .fall
  | _ => none

def handle : List String → String
  | "seq" :: args => handleLoop false args
  | "par" :: args => handleLoop true args
  | "exit" :: args => handleExit ("exit" :: args)
  | "reach" :: args => handleExit ("reach" :: args)
  | "reachE" :: args => handleReachE args
  | ["allowed", kinds, ran, out] =>
    match parseKinds kinds, parseNats ran, parseOutcome out with
    | some kinds, some ran, some out =>
      if ran.any (fun k => k ≥ kinds.length) then "bad-op"
      else s!"ok {allowedOutcome (fun k => kinds.getD k .cont) ran out}"
    | _, _, _ => "bad-op"
  | _ => "bad-op"

end CyVerif.C37

import CyVerif.Model.C15Ops
/-! # C15 — line-protocol entry (`Py_ssize_t` is 64 bits in the driver) -/
namespace CyVerif.C15

def parseList (s : String) : Option (List Int) :=
  if s == "-" then some [] else (s.splitOn ",").mapM parseInt?

def parseBool (s : String) : Option Bool :=
  if s == "1" then some true else if s == "0" then some false else none

def parseOptInt (s : String) : Option (Option Int) :=
  if s == "N" then some none else (parseInt? s).map some

def parseKind : String → Option Kind
  | "list" => some .list | "tuple" => some .tuple | "listSub" => some .listSub
  | "tupleSub" => some .tupleSub | "str" => some .str | "bytes" => some .bytes
  | "bytearray" => some .bytearray | _ => none

/-- `_` absent, `N` None, `o:<v>` Python int, `c:<w>:<s>:<v>` C value -/
def parseBound (s : String) : Option Bound :=
  match s.splitOn ":" with
  | ["_"] => some .absent
  | ["N"] => some .pyNone
  | ["o", v] => (parseInt? v).map .pyInt
  | ["c", w, sg, v] =>
    match parseNat? w, parseBool sg, parseInt? v with
    | some w, some sg, some v => if inT w sg v then some (.c w sg v) else none
    | _, _, _ => none
  | _ => none

def renderInt : Out Int → String
  | .ok v => s!"ok {v}"
  | .err e => s!"err {e}"
  | .ub k => s!"ub {k}"

def renderList : Out (List Int) → String
  | .ok v => "ok " ++ intsToStr v
  | .err e => s!"err {e}"
  | .ub k => s!"ub {k}"

structure IdxArgs where
  w : Nat
  signed : Bool
  d : Dirs
  cn : Bool
  l : List Int
  v : Int

/-- common argument block `<w> <s> <wrap> <bc> <cn> <list> <v>`; the value must be representable
in the C type and a "constant ≥ 0" claim must be true -/
def parseIdx (w s wr bc cn l v : String) : Option IdxArgs :=
  match parseNat? w, parseBool s, parseBool wr, parseBool bc, parseBool cn, parseList l, parseInt? v with
  | some w, some s, some wr, some bc, some cn, some l, some v =>
    if inT w s v && (!cn || decide (0 ≤ v)) && decide (0 < w) then some ⟨w, s, ⟨wr, bc⟩, cn, l, v⟩ else none
  | _, _, _, _, _, _, _ => none

def SW : Nat := 64

def handleGet (tk : String) (a : IdxArgs) : String :=
  match tk.splitOn ":" with
  | ["list"] | ["tuple"] => renderInt (getItemIntSeq SW a.w a.signed a.d a.cn a.l a.v)
  | ["str"] => renderInt (getItemIntStr SW a.w a.signed a.d a.cn .unicode a.l a.v)
  | ["bytes"] => renderInt (getItemIntStr SW a.w a.signed a.d a.cn .bytes a.l a.v)
  | ["bytearray"] => renderInt (getItemIntStr SW a.w a.signed a.d a.cn .bytearray a.l a.v)
  | ["o", k] =>
    match parseKind k with
    | some k => renderInt (getItemIntObj SW a.w a.signed a.d a.cn k a.l a.v)
    | none => "bad-op"
  | _ => "bad-op"

def handleSet (tk : String) (a : IdxArgs) (x : Int) : String :=
  match tk.splitOn ":" with
  | ["bytearray"] => renderList (setItemIntByteArray SW a.w a.signed a.d a.cn a.l a.v x)
  | ["o", k] =>
    match parseKind k with
    | some k => renderList (setItemIntObj SW a.w a.signed a.d a.cn k a.l a.v x)
    | none => "bad-op"
  | _ => "bad-op"

def handleSlice (tk : String) (fixed : Bool) (l : List Int) (bs be : Bound) : String :=
  match tk.splitOn ":" with
  | ["t", k] =>
    match parseKind k with
    | some k => renderList (typedGetSlice SW fixed k l bs be)
    | none => "bad-op"
  | ["o"] => renderList (objGetSlice SW l bs be)
  | _ => "bad-op"

def handleAss (tk : String) (l : List Int) (bs be : Bound) (vs : Option (List Int)) : String :=
  match tk.splitOn ":" with
  | ["t", k] =>
    match parseKind k with
    | some k => renderList (typedAssSlice SW k l bs be vs)
    | none => "bad-op"
  | ["o", k] =>
    match parseKind k with
    | some k => renderList (objAssSlice SW k l bs be vs)
    | none => "bad-op"
  | _ => "bad-op"

def handle : List String → String
  | ["get", tk, w, s, wr, bc, cn, l, v] =>
    match parseIdx w s wr bc cn l v with
    | some a => handleGet tk a
    | none => "bad-op"
  | ["set", tk, w, s, wr, bc, cn, l, v, x] =>
    match parseIdx w s wr bc cn l v, parseInt? x with
    | some a, some x => handleSet tk a x
    | _, _ => "bad-op"
  | ["del", k, w, s, wr, bc, cn, l, v] =>
    match parseIdx w s wr bc cn l v, parseKind k with
    | some a, some k => renderList (delItemInt SW a.w a.signed a.d a.cn k a.l a.v)
    | _, _ => "bad-op"
  | ["slice", tk, fx, l, bs, be] =>
    match parseBool fx, parseList l, parseBound bs, parseBound be with
    | some fx, some l, some bs, some be => handleSlice tk fx l bs be
    | _, _, _, _ => "bad-op"
  | ["ass", tk, l, bs, be, vs] =>
    match parseList l, parseBound bs, parseBound be with
    | some l, some bs, some be =>
      if vs == "D" then handleAss tk l bs be none
      else match parseList vs with
        | some vs => handleAss tk l bs be (some vs)
        | none => "bad-op"
    | _, _, _ => "bad-op"
  | ["pyget", l, i] =>
    match parseList l, parseInt? i with
    | some l, some i => renderInt (pyGet l i)
    | _, _ => "bad-op"
  | ["pyset", l, i, x] =>
    match parseList l, parseInt? i, parseInt? x with
    | some l, some i, some x => renderList (pySet l i x)
    | _, _, _ => "bad-op"
  | ["pydel", l, i] =>
    match parseList l, parseInt? i with
    | some l, some i => renderList (pyDel l i)
    | _, _ => "bad-op"
  | ["pyslice", l, a, b, st] =>
    match parseList l, parseOptInt a, parseOptInt b, parseOptInt st with
    | some l, some a, some b, some st => renderList (pySlice l a b st)
    | _, _, _, _ => "bad-op"
  | ["pysetslice", l, a, b, vs] =>
    match parseList l, parseOptInt a, parseOptInt b with
    | some l, some a, some b =>
      if vs == "D" then renderList (.ok (pyDelSlice l a b))
      else match parseList vs with
        | some vs => renderList (.ok (pySetSlice l a b vs))
        | none => "bad-op"
    | _, _, _ => "bad-op"
  | ["pydelslice3", l, a, b, st] =>
    match parseList l, parseOptInt a, parseOptInt b, parseOptInt st with
    | some l, some a, some b, some st => renderList (pyDelSlice3 l a b st)
    | _, _, _, _ => "bad-op"
  | _ => "bad-op"

end CyVerif.C15

import CyVerif.Model.Util
/-!
Model for property C24 (argument binding of compiled `def` functions).

* `pyBind`  — CPython 3.12 `initialize_locals` (Python/ceval.c) at the callee boundary.
* `cyBind`  — the code Cython generates in `DefNodeWrapper.generate_argument_parsing_code`
  (Cython/Compiler/Nodes.py) together with the helpers of Cython/Utility/FunctionArguments.c
  (`__Pyx_ParseKeywordsTuple`, `__Pyx_ParseKeywordDict`, `__Pyx_ParseKeywordDictToDict`,
  `__Pyx_MatchKeywordArg_str/_nostr`, `__Pyx_ValidateDuplicatePosArgs`, `__Pyx_RejectKeywords`,
  `__Pyx_CheckKeywordStrings`) and the METH_NOARGS / METH_O entry points of
  Cython/Utility/CythonFunction.c (`__Pyx_CyFunction_Vectorcall_NOARGS/_O`, `__Pyx_CyFunction_CallMethod`).

Abstraction.  Values are opaque (`Nat` tags).  A parameter name is a `Nat`.  A keyword key is a
text (`Nat`, same space as parameter names) plus a *kind*: interned exact `str` (pointer-identical to
the interned parameter name of the same text), non-interned exact `str`, instance of a `str` subclass
with inherited `__eq__`/`__hash__`, or a non-string object.  C arrays (`values[]`, `localsplus[]`)
are functions `Nat → Option Val` (`none` = NULL) with explicit bound checks (`ub-…` outcomes).
All TypeErrors are `err "TypeError"` (messages are compared only differentially).
-/
namespace CyVerif.C24

abbrev Val := Nat

inductive Kind where
  | interned | fresh | sub | nonstr
  deriving DecidableEq, Repr

structure Key where
  text : Nat
  kind : Kind
  deriving DecidableEq, Repr

/-- `PyUnicode_Check(key)` -/
def Key.isStr (k : Key) : Bool := k.kind != .nonstr
/-- `PyUnicode_CheckExact(key)` -/
def Key.exact (k : Key) : Bool := k.kind == .interned || k.kind == .fresh
/-- pointer identity with the interned parameter name `n` -/
def Key.ptrEq (k : Key) (n : Nat) : Bool := k.kind == .interned && k.text == n
/-- string comparison (`memcmp` / `PyObject_RichCompareBool(.., Py_EQ)`) with the name `n` -/
def Key.txtEq (k : Key) (n : Nat) : Bool := k.isStr && k.text == n

structure Param where
  name : Nat
  dflt : Option Val
  deriving DecidableEq, Repr

/-- `def f(pos[0..npo) , / , pos[npo..) , *args?, kwo..., **kw?)` -/
structure Sig where
  pos   : List Param
  npo   : Nat
  kwo   : List Param
  star  : Bool
  sstar : Bool
  deriving Repr

structure Call where
  args : List Val
  kws  : List (Key × Val)
  deriving Repr

structure Binding where
  vals : List (Nat × Val)
  star : Option (List Val)
  kw   : Option (List (Key × Val))
  deriving DecidableEq, Repr

/-- C array of object pointers, `none` = NULL -/
abbrev Slots := Nat → Option Val

def Slots.set (a : Slots) (i : Nat) (v : Option Val) : Slots := fun j => if j = i then v else a j

def Slots.empty : Slots := fun _ => none

/-- `values[i] = args[i]` for `i < n` -/
def Slots.ofArgs (args : List Val) (n : Nat) : Slots := fun j => if j < n then args[j]? else none

def foldRes {σ α : Type} (f : σ → α → Res σ) : σ → List α → Res σ
  | st, [] => .ok st
  | st, a :: as =>
    match f st a with
    | .ok st' => foldRes f st' as
    | .err e => .err e

def tyErr {α : Type} : Res α := .err "TypeError"

/-- search `names[lo:]` for the first name satisfying `p`; the result indexes `names` -/
def searchFrom (p : Nat → Bool) (names : List Nat) (lo : Nat) : Option Nat :=
  ((names.drop lo).findIdx? p).map (· + lo)

/-- dict lookup `kwds[name]` (hash + `==`): the value of the (unique) string key with that text -/
def dictGet (kws : List (Key × Val)) (n : Nat) : Option Val :=
  (kws.find? (fun kv => kv.1.txtEq n)).map (·.2)

def Sig.decl (s : Sig) : List Param := s.pos ++ s.kwo
def Sig.total (s : Sig) : Nat := s.pos.length + s.kwo.length

/-! ## CPython: `initialize_locals` -/

/-- state of a keyword loop: the C array being filled (`localsplus[]` / `values[]`) and the dict that
    collects unmatched keywords (`kwdict` / `kwds2`), in insertion order -/
structure KwState where
  slots : Slots
  extra : List (Key × Val)

abbrev PyState := KwState

/-- one iteration of the keyword loop of `initialize_locals` -/
def pyKwStep (s : Sig) (st : PyState) (kv : Key × Val) : Res PyState :=
  if !kv.1.isStr then tyErr                       -- "keywords must be strings"
  else
    let names := s.decl.map (·.name)
    -- first loop: pointer comparison, second loop: PyObject_RichCompareBool; both from co_posonlyargcount
    match (searchFrom kv.1.ptrEq names s.npo).orElse (fun _ => searchFrom kv.1.txtEq names s.npo) with
    | some j =>
      if (st.slots j).isSome then tyErr           -- "got multiple values for argument"
      else .ok { st with slots := st.slots.set j (some kv.2) }
    | none =>
      if s.sstar then .ok { st with extra := st.extra ++ [kv] }
      else tyErr                                   -- unexpected keyword / positional-only passed as keyword

/-- slot `i` of `l` after default filling (`defs[i-m]` / `kwdefaults[name]`) -/
def withDefaults (ps : List Param) (a : Slots) : Slots :=
  fun j => match ps[j]? with
    | some p => (a j).orElse (fun _ => p.dflt)
    | none => a j

/-- all of `a[0..n)` are non-NULL -/
def allSet (a : Slots) (n : Nat) : Bool := (List.range n).all (fun j => (a j).isSome)

def readSlots (ps : List Param) (a : Slots) : List (Nat × Val) :=
  (List.range ps.length).map (fun j => ((ps.getD j ⟨0, none⟩).name, (a j).getD 0))

def pyBind (s : Sig) (c : Call) : Res Binding :=
  let P := s.pos.length
  let n := min c.args.length P
  let st0 : PyState := { slots := Slots.ofArgs c.args n, extra := [] }
  match foldRes (pyKwStep s) st0 c.kws with
  | .err e => .err e
  | .ok st =>
    if c.args.length > P && !s.star then tyErr     -- too_many_positional
    else
      let locals := withDefaults s.decl st.slots
      if !allSet locals s.total then tyErr         -- missing required positional / keyword-only
      else .ok { vals := readSlots s.decl locals,
                 star := if s.star then some (c.args.drop n) else none,
                 kw := if s.sstar then some st.extra else none }

/-! ## Cython: utility code of FunctionArguments.c -/

/-- build configuration of one compiled function -/
structure Cfg where
  vec      : Bool   -- keywords arrive as vectorcall `kwnames` tuple (else: as a dict, METH_VARARGS|METH_KEYWORDS)
  alwaysKw : Bool   -- directive `always_allow_keywords`
  kwUsed   : Bool   -- `**kwargs` is referenced in the body (otherwise it stays NULL: `ignore_unknown_kwargs`)
  cmethod  : Bool   -- method of a cdef class (an implicit, non-positional-only `self` is part of `self.args`)
  deriving Repr

inductive Match where
  | found (i : Nat) | notFound | error
  deriving DecidableEq, Repr

/-- `__Pyx_MatchKeywordArg_str`: compare with `names[first:]`, then look for a collision with `names[:first]` -/
def matchStr (k : Key) (names : List Nat) (first : Nat) : Match :=
  match searchFrom k.txtEq names first with
  | some i => .found i
  | none => if (names.take first).any k.txtEq then .error else .notFound

/-- `__Pyx_MatchKeywordArg_nostr` (str subclasses, non-strings) -/
def matchNoStr (k : Key) (names : List Nat) (first : Nat) : Match :=
  if !k.isStr then .error                          -- "keywords must be strings"
  else match searchFrom k.txtEq names first with
    | some i => .found i
    | none => if (names.take first).any k.txtEq then .error else .notFound

def matchKeywordArg (k : Key) (names : List Nat) (first : Nat) : Match :=
  if k.exact then matchStr k names first else matchNoStr k names first

abbrev CyState := KwState

/-- body of the `for` loop of `__Pyx_ParseKeywordsTuple`; `values` here is the C pointer `values + base` -/
def parseTupleStep (names : List Nat) (first base : Nat) (hasK2 ignore : Bool)
    (st : CyState) (kv : Key × Val) : Res CyState :=
  match searchFrom kv.1.ptrEq names first with      -- quick pointer search
  | some i => .ok { st with slots := st.slots.set (base + i) (some kv.2) }
  | none =>
    match matchKeywordArg kv.1 names first with
    | .found i => .ok { st with slots := st.slots.set (base + i) (some kv.2) }
    | .error => tyErr
    | .notFound =>
      if hasK2 then .ok { st with extra := st.extra ++ [kv] }
      else if ignore then .ok st
      else tyErr                                    -- invalid_keyword

def parseTuple (names : List Nat) (first base : Nat) (hasK2 ignore : Bool)
    (values : Slots) (kws : List (Key × Val)) : Res CyState :=
  foldRes (parseTupleStep names first base hasK2 ignore) ⟨values, []⟩ kws

/-- `PyArg_ValidateKeywordArguments(kwds)` fails -/
def hasNonStr (kws : List (Key × Val)) : Bool := kws.any (fun kv => !kv.1.isStr)

/-- `__Pyx_ValidateDuplicatePosArgs` reports an error -/
def dupPosArgs (kws : List (Key × Val)) (names : List Nat) (first : Nat) : Bool :=
  (names.take first).any (fun n => (dictGet kws n).isSome)

/-- the `while (*name && num_kwargs > extracted)` loop of `__Pyx_ParseKeywordDict`;
    `i` is `name - argnames` -/
def dictLoop (kws : List (Key × Val)) (numKw base : Nat) :
    List Nat → Nat → Slots → Nat → Slots × Nat
  | [], _, vals, ex => (vals, ex)
  | n :: ns, i, vals, ex =>
    if numKw > ex then
      match dictGet kws n with
      | some v => dictLoop kws numKw base ns (i + 1) (vals.set (base + i) (some v)) (ex + 1)
      | none => dictLoop kws numKw base ns (i + 1) vals ex
    else (vals, ex)

/-- `__Pyx_ParseKeywordDict` (no `**kwargs` dict to fill) -/
def parseDict (names : List Nat) (first base : Nat) (ignore : Bool)
    (values : Slots) (kws : List (Key × Val)) (numKw : Nat) : Res CyState :=
  if hasNonStr kws then tyErr
  else
    let r := dictLoop kws numKw base (names.drop first) first values 0
    if numKw > r.2 then
      if ignore then (if dupPosArgs kws names first then tyErr else .ok ⟨r.1, []⟩)
      else tyErr                                    -- __Pyx_RejectUnknownKeyword
    else .ok ⟨r.1, []⟩

/-- the pop loop of `__Pyx_ParseKeywordDictToDict` -/
def popLoop (base : Nat) : List Nat → Nat → Slots → List (Key × Val) → Slots × List (Key × Val)
  | [], _, vals, k2 => (vals, k2)
  | n :: ns, i, vals, k2 =>
    match dictGet k2 n with
    | some v => popLoop base ns (i + 1) (vals.set (base + i) (some v)) (k2.filter (fun kv => !kv.1.txtEq n))
    | none => popLoop base ns (i + 1) vals k2

/-- `__Pyx_ParseKeywordDictToDict` -/
def parseDictToDict (names : List Nat) (first base : Nat)
    (values : Slots) (kws : List (Key × Val)) : Res CyState :=
  if hasNonStr kws then tyErr
  else
    let r := popLoop base (names.drop first) first values kws      -- after PyDict_Update(kwds2, kwds)
    if r.2.length > 0 then
      if dupPosArgs kws names first then tyErr else .ok ⟨r.1, r.2⟩
    else .ok ⟨r.1, r.2⟩

/-- `__Pyx_ParseKeywords` -/
def parseKeywords (cfg : Cfg) (sstar : Bool) (names : List Nat) (first base : Nat)
    (values : Slots) (kws : List (Key × Val)) : Res CyState :=
  if cfg.vec then parseTuple names first base (sstar && cfg.kwUsed) sstar values kws
  else if sstar && cfg.kwUsed then parseDictToDict names first base values kws
  else parseDict names first base sstar values kws kws.length

/-! ## Cython: generated wrapper code (Nodes.py, `DefNodeWrapper`) -/

def isReq (p : Param) : Bool := p.dflt.isNone

/-- `all_args`: positional, then required keyword-only, then optional keyword-only -/
def Sig.allArgs (s : Sig) : List Param :=
  s.pos ++ (s.kwo.filter isReq ++ s.kwo.filter (fun p => !isReq p))

/-- some slot in `[lo, hi)` is NULL -/
def anyNull (a : Slots) (lo hi : Nat) : Bool :=
  (List.range (hi - lo)).any (fun d => (a (lo + d)).isNone)

/-- `generate_arg_assignment` for every argument + the body's `return (locals…)` in declaration order -/
def cyFinish (cfg : Cfg) (s : Sig) (c : Call) (values : Slots) (kwds2 : List (Key × Val)) : Res Binding :=
  let all := s.allArgs
  if !allSet values all.length then .err "ub-null-arg"
  else
    let names := all.map (·.name)
    .ok { vals := s.decl.map (fun p => (p.name, (values (names.idxOf p.name)).getD 0)),
          star := if s.star then some (c.args.drop s.pos.length) else none,   -- __Pyx_ArgsSlice(args, P, nargs)
          kw := if s.sstar && cfg.kwUsed then some kwds2 else none }

/-- `kwd_pos_args` / `used_pos_args` of `generate_keyword_unpacking_code`: how many of the names in
    `__pyx_pyargnames` were already filled from the positional arguments (`first_kw_arg = argnames + this`) -/
def posArgCount (s : Sig) (nargs : Nat) : Nat :=
  let kwdPosArgs := if s.npo > 0 then (if nargs < s.npo then 0 else nargs - s.npo) else nargs
  if s.pos.length = 0 then 0
  else if s.star then min kwdPosArgs (s.pos.length - s.npo)
  else kwdPosArgs

/-- `values_array`: the helper gets `values + num_pos_only_args` if `0 < num_pos_only_args < len(all_args)` -/
def valuesBase (s : Sig) : Nat := if 0 < s.npo && s.npo < s.allArgs.length then s.npo else 0

/-- `generate_tuple_and_keyword_parsing_code` -/
def cyGeneral (cfg : Cfg) (s : Sig) (c : Call) : Res Binding :=
  let P := s.pos.length
  let all := s.allArgs
  let nreqkw := (s.kwo.filter isReq).length
  let minpos := (s.pos.filter isReq).length
  let nrpo := ((s.pos.take s.npo).filter isReq).length
  let nargs := c.args.length
  let names := (all.drop s.npo).map (·.name)           -- non_posonly_args -> __pyx_pyargnames
  let acceptKw := !names.isEmpty || s.sstar
  let kwlen := c.kws.length
  if kwlen > 0 then
    if !acceptKw then tyErr                              -- __Pyx_RejectKeywords
    else if nargs > P && !s.star then tyErr              -- switch (nargs) default: argtuple_error
    else if nargs < nrpo then tyErr                      -- not enough pos-only args
    else
      let values := Slots.ofArgs c.args (min nargs P)
      if posArgCount s nargs > names.length then .err "ub-oob-argnames"
      else
        match parseKeywords cfg s.sstar names (posArgCount s nargs) (valuesBase s) values c.kws with
        | .err e => .err e
        | .ok st =>
          let values := withDefaults all st.slots
          if minpos > nrpo && anyNull values nargs minpos then tyErr        -- __Pyx_RaiseArgtupleInvalid
          else if nreqkw > 0 && anyNull values P (P + nreqkw) then tyErr    -- __Pyx_RaiseKeywordRequired
          else cyFinish cfg s c values st.extra
  else
    let lenErr :=
      if (nreqkw > 0 && minpos > 0) || minpos == P then
        (if minpos == P && !s.star then nargs != minpos else nargs < minpos)
      else false
    if lenErr then tyErr
    else if nreqkw > 0 then tyErr                        -- keywords required but none passed
    else if minpos == P then
      if nargs < P then .err "ub-oob-args"
      else cyFinish cfg s c (withDefaults all (Slots.ofArgs c.args P)) []
    else if s.star then
      if nargs < minpos then tyErr
      else cyFinish cfg s c (withDefaults all (Slots.ofArgs c.args (min nargs P))) []
    else if nargs < minpos || nargs > P then tyErr
    else cyFinish cfg s c (withDefaults all (Slots.ofArgs c.args nargs)) []

/-- `generate_stararg_copy_code`: `def f(*args)`, `def f(**kw)`, `def f(*args, **kw)` -/
def cyStarargCopy (cfg : Cfg) (s : Sig) (c : Call) : Res Binding :=
  if !s.star && c.args.length > 0 then tyErr
  else if s.sstar then
    if c.kws.length > 0 && !cfg.vec && hasNonStr c.kws then tyErr       -- __Pyx_CheckKeywordStrings
    else .ok { vals := [], star := if s.star then some c.args else none,
               kw := if cfg.kwUsed then some c.kws else none }
  else if c.kws.length > 0 then tyErr                                    -- __Pyx_RejectKeywords
  else .ok { vals := [], star := if s.star then some c.args else none, kw := none }

inductive Meth where
  | noargs | o | generic
  deriving DecidableEq, Repr

/-- `DefNode.analyse_signature`: METH_NOARGS / METH_O for zero- and one-argument functions -/
def methKind (cfg : Cfg) (s : Sig) : Meth :=
  if !s.star && !s.sstar &&
      (!cfg.alwaysKw || (!cfg.cmethod && s.npo == s.pos.length && s.kwo.isEmpty)) then
    if s.pos.isEmpty && s.kwo.isEmpty then .noargs
    else if s.kwo.isEmpty && s.pos.length == 1 && (s.pos.all isReq) then .o
    else .generic
  else .generic

def cyBind (cfg : Cfg) (s : Sig) (c : Call) : Res Binding :=
  match methKind cfg s with
  | .noargs =>      -- __Pyx_CyFunction_Vectorcall_NOARGS / __Pyx_CyFunction_CallMethod / cfunction_vectorcall_NOARGS
    if c.kws.length > 0 then tyErr
    else if c.args.length != 0 then tyErr
    else .ok { vals := [], star := none, kw := none }
  | .o =>
    if c.kws.length > 0 then tyErr
    else if c.args.length != 1 then tyErr
    else .ok { vals := s.pos.map (fun p => (p.name, c.args.headD 0)), star := none, kw := none }
  | .generic =>
    if s.pos.isEmpty && s.kwo.isEmpty then cyStarargCopy cfg s c else cyGeneral cfg s c

/-- A call `(args, kwargs)` arriving at the function object.  A vectorcall callee gets `kwnames` built from the
    kwargs dict by CPython's `_PyStack_UnpackDict` or Cython's `__Pyx_PyVectorcall_FastCallDict_kw`
    (ObjectHandling.c, used by `__Pyx_CyFunction_CallAsMethod`): both reject non-string keys. -/
def cyCall (cfg : Cfg) (s : Sig) (c : Call) : Res Binding :=
  if cfg.vec && hasNonStr c.kws then tyErr else cyBind cfg s c

/-- what the test functions can observe: an unused `**kwargs` is not observable -/
def observe (cfg : Cfg) (b : Binding) : Binding :=
  if cfg.kwUsed then b else { b with kw := none }

def mapRes {α β : Type} (f : α → β) : Res α → Res β
  | .ok v => .ok (f v)
  | .err e => .err e

/-! ## parameter names as written in the source and as seen by callers

`Sig` carries the names callers must use.  They are a function of the source spelling and of the
definition context: the identifier is NFKC-normalised and, inside a class body (directly or nested in a
method), a class-private spelling `__x` becomes `_Cls__x` (CPython `_Py_Mangle`; Cython: `arg.entry.name`,
which `generate_tuple_and_keyword_parsing_code` interns into `__pyx_pyargnames`). -/

inductive NameShape where
  | plain      -- ordinary, single underscore, dunder `__x__`, already-mangled-looking `_Cls__x`
  | priv       -- class-private `__x`
  deriving DecidableEq, Repr

/-- source spelling: the NFKC-normalised identifier text `norm` (a code) and whether it is class-private -/
structure SrcName where
  norm  : Nat
  shape : NameShape
  deriving DecidableEq, Repr

/-- the name callers see; `cls = some c` inside the body of class `c`.  Names are coded injectively:
    an unmangled text `t` as `2*t`, the mangled `_c__t` as `2*(c + t*(…)) + 1` via Cantor pairing. -/
def callerName (cls : Option Nat) (n : SrcName) : Nat :=
  match cls, n.shape with
  | some c, .priv => 2 * ((c + n.norm) * (c + n.norm + 1) / 2 + n.norm) + 1
  | _, _ => 2 * n.norm

structure SrcParam where
  src  : SrcName
  dflt : Option Val

structure SrcSig where
  cls   : Option Nat
  pos   : List SrcParam
  npo   : Nat
  kwo   : List SrcParam
  star  : Bool
  sstar : Bool

/-- the signature both CPython and the compiled function expose -/
def SrcSig.toSig (s : SrcSig) : Sig :=
  { pos := s.pos.map (fun p => ⟨callerName s.cls p.src, p.dflt⟩), npo := s.npo,
    kwo := s.kwo.map (fun p => ⟨callerName s.cls p.src, p.dflt⟩), star := s.star, sstar := s.sstar }

/-! ## line protocol -/

def mkSig (P npo ndef : Nat) (star sstar : Bool) (kwo : String) : Sig :=
  { pos := (List.range P).map (fun i => ⟨i, if P - ndef ≤ i then some (900 + i) else none⟩),
    npo := npo,
    kwo := (List.range kwo.length).map (fun j =>
      ⟨100 + j, if kwo.toList.getD j 'r' == 'o' then some (950 + j) else none⟩),
    star := star, sstar := sstar }

def parseList {α : Type} (f : String → Option α) (s : String) : Option (List α) :=
  if s == "-" then some [] else (s.splitOn ",").mapM f

def parseKind : String → Option Kind
  | "i" => some .interned | "f" => some .fresh | "s" => some .sub | "n" => some .nonstr | _ => none

def parseKw (s : String) : Option (Key × Val) :=
  match s.splitOn "." with
  | [k, t, v] =>
    match parseKind k, t.toNat?, v.toNat? with
    | some k, some t, some v => some (⟨t, k⟩, v)
    | _, _, _ => none
  | _ => none

def parseBool : String → Option Bool
  | "0" => some false | "1" => some true | _ => none

def kindStr : Kind → String
  | .interned => "i" | .fresh => "f" | .sub => "s" | .nonstr => "n"

def joinOr (xs : List String) : String := if xs.isEmpty then "-" else ",".intercalate xs

def renderBinding (b : Binding) : String :=
  joinOr (b.vals.map fun nv => s!"{nv.1}={nv.2}") ++ "|*=" ++
  (match b.star with | none => "none" | some l => joinOr (l.map toString)) ++ "|**=" ++
  (match b.kw with | none => "none" | some l => joinOr (l.map fun kv => s!"{kindStr kv.1.kind}.{kv.1.text}.{kv.2}"))

def renderRes : Res Binding → String
  | .ok b => "ok " ++ renderBinding b
  | .err e => if e.startsWith "ub" then "ub " ++ e else "err " ++ e

def parseSigCall : List String → Option (Sig × Call)
  | [P, npo, ndef, star, sstar, kwo, args, kws] =>
    match P.toNat?, npo.toNat?, ndef.toNat?, parseBool star, parseBool sstar,
          parseList String.toNat? args, parseList parseKw kws with
    | some P, some npo, some ndef, some star, some sstar, some args, some kws =>
      if npo ≤ P ∧ ndef ≤ P ∧ ((kwo == "-") ∨ kwo.toList.all (fun ch => ch == 'r' || ch == 'o')) then
        some (mkSig P npo ndef star sstar (if kwo == "-" then "" else kwo), ⟨args, kws⟩)
      else none
    | _, _, _, _, _, _, _ => none
  | _ => none

def parseCfg (s : String) : Option Cfg :=
  match s.toList with
  | [a, b, c, d] =>
    if [a, b, c, d].all (fun ch => ch == '0' || ch == '1') then
      some ⟨a == '1', b == '1', c == '1', d == '1'⟩
    else none
  | _ => none

def handle : List String → String
  | "bind" :: cfg :: rest =>
    match parseCfg cfg, parseSigCall rest with
    | some cfg, some (s, c) => renderRes (cyCall cfg s c)
    | _, _ => "bad-op"
  | "py" :: cfg :: rest =>
    match parseCfg cfg, parseSigCall rest with
    | some cfg, some (s, c) => renderRes (mapRes (observe cfg) (pyBind s c))
    | _, _ => "bad-op"
  | _ => "bad-op"

end CyVerif.C24

import CyVerif.Model.C10Utf8
import CyVerif.Model.C11
import CyVerif.Model.C12
/-!
# C10 (part B) — the module string table

Compile time (`Code.py: GlobalState.generate_pystring_constants`): text strings are sorted
by `(is_interned, text)`, byte strings by `(bytes, cname)`; every text is encoded to UTF-8;
all byte sequences are concatenated into one blob; the lengths go into two arrays of
bit-fields `const unsigned int length : W` with `W = max(index).bit_length()`; every
`cname` is `#define`d as `stringtab[position]`.  The blob is written as a C string literal
(`_write_escaped_cstring_const`, model: C11) once uncompressed and once per compression
algorithm that saves at least `selectMargin` bytes; a `#if` chain on
`CYTHON_COMPRESS_STRINGS` picks one.

Run time (generated `__Pyx_InitConstants`): `pos = 0`; for every index entry read
`bytes_length`, build `PyUnicode_DecodeUTF8(bytes + pos, bytes_length, NULL)` (interned if
`i >= first_interned`) or `PyBytes_FromStringAndSize(bytes + pos, bytes_length)`,
`pos += bytes_length`.
-/
namespace CyVerif.C10

structure TextEntry where
  interned : Bool
  cname : List Nat
  text : List Nat
  deriving Repr, DecidableEq

structure BytesEntry where
  cname : List Nat
  data : List Nat
  deriving Repr, DecidableEq

/-- constants of the generator -/
structure TableP where
  /-- lower bound on the bit-field width: `0` for `max(index).bit_length()` -/
  minWidth : Nat
  /-- `2**15`: below this many entries the C loop variable is an `int` -/
  intLoopLimit : Nat
  deriving Repr, DecidableEq

/-- `int` is only guaranteed to hold 32767; `unsigned int` bit-fields are at most 32 bits wide. -/
def TableP.WF (p : TableP) : Prop := p.intLoopLimit ≤ 32768 ∧ p.minWidth ≤ 32
instance instDecTablePWF (p : TableP) : Decidable p.WF := by unfold TableP.WF; infer_instance

def pinnedTableP : TableP := ⟨0, 32768⟩

/-- Python's `<=` on `str` / `bytes` / tuples of code points: lexicographic -/
def listLe : List Nat → List Nat → Bool
  | [], _ => true
  | _ :: _, [] => false
  | a :: s, b :: t => if a < b then true else if b < a then false else listLe s t

/-- key `(is_interned, text)` -/
def textLe (a b : TextEntry) : Bool :=
  if a.interned = b.interned then listLe a.text b.text else !a.interned

/-- tuples `(bytes, cname)` -/
def bytesLe (a b : BytesEntry) : Bool :=
  if a.data = b.data then listLe a.cname b.cname else listLe a.data b.data

def sortTexts (ts : List TextEntry) : List TextEntry := ts.mergeSort textLe
def sortBytes (bs : List BytesEntry) : List BytesEntry := bs.mergeSort bytesLe

/-- `int.bit_length()` -/
def bitLength (n : Nat) : Nat := if n = 0 then 0 else n.log2 + 1

def maxOf (l : List Nat) : Nat := l.foldl max 0

/-- what the generator writes -/
structure Layout where
  strIndex : List Nat
  strWidth : Nat
  bytesIndex : List Nat
  bytesWidth : Nat
  blob : List Nat
  nText : Nat
  nTotal : Nat
  firstInterned : Option Nat
  defines : List (List Nat × Nat)
  deriving Repr, DecidableEq

/-- index of the first interned entry (`first_interned`, `-1` = `none`) -/
def firstInternedIdx : List TextEntry → Nat → Option Nat
  | [], _ => none
  | e :: rest, i => if e.interned then some i else firstInternedIdx rest (i + 1)

/-- the `assert is_interned` inside the loop: after the first interned entry all are interned -/
def internedSuffix : List TextEntry → Bool
  | [] => true
  | e :: rest => if e.interned then rest.all (·.interned) else internedSuffix rest

def encodeAll : List (List Nat) → Res (List (List Nat))
  | [] => .ok []
  | t :: rest =>
    match utf8Encode t with
    | .err e => .err e
    | .ok b => match encodeAll rest with
      | .err e => .err e
      | .ok bs => .ok (b :: bs)

def widthOf (p : TableP) (index : List Nat) : Nat := max p.minWidth (bitLength (maxOf index))

/-- layout of entries that are already in table order -/
def layout (p : TableP) (ts : List TextEntry) (bs : List BytesEntry) : Res Layout :=
  match encodeAll (ts.map (·.text)) with
  | .err e => .err e
  | .ok enc =>
    if internedSuffix ts then
      let strIndex := enc.map List.length
      let bytesIndex := bs.map (·.data.length)
      .ok { strIndex := strIndex, strWidth := widthOf p strIndex,
            bytesIndex := bytesIndex, bytesWidth := widthOf p bytesIndex,
            blob := enc.flatten ++ (bs.map (·.data)).flatten,
            nText := ts.length, nTotal := ts.length + bs.length,
            firstInterned := firstInternedIdx ts 0,
            defines := (ts.map (·.cname) ++ bs.map (·.cname)).zipIdx }
    else .err "AssertionError"

/-- `generate_pystring_constants(text_strings, byte_strings)` -/
def compileTable (p : TableP) (ts : List TextEntry) (bs : List BytesEntry) : Res Layout :=
  layout p (sortTexts ts) (sortBytes bs)

/-! ## Run time -/

inductive PyConst where
  | text (cps : List Nat) (interned : Bool)
  | bytes (data : List Nat)
  deriving Repr, DecidableEq

/-- reading `index[i].length` from `const struct { const unsigned int length : w; }` that was
initialised with `v`; a zero or over-wide named bit-field does not compile -/
def bitfield (w v : Nat) : Res Nat :=
  if w = 0 ∨ 32 < w then .err "cc" else .ok (v % 2 ^ w)

/-- `bytes + pos` for `len` bytes inside the array of `blob.length` bytes (+ terminator) -/
def slice (blob : List Nat) (pos len : Nat) : Res (List Nat) :=
  if pos + len ≤ blob.length then .ok ((blob.drop pos).take len) else .err "ub-read-outside-table"

/-- the `for (… i = 0; i < nText; i++)` loop -/
def runTexts (blob : List Nat) (w : Nat) (first : Option Nat) : List Nat → Nat → Nat → Res (List PyConst × Nat)
  | [], _, pos => .ok ([], pos)
  | v :: rest, i, pos =>
    match bitfield w v with
    | .err e => .err e
    | .ok len =>
      match slice blob pos len with
      | .err e => .err e
      | .ok raw =>
        match utf8Decode raw with
        | none => .err "UnicodeDecodeError"
        | some s =>
          match runTexts blob w first rest (i + 1) (pos + len) with
          | .err e => .err e
          | .ok (out, pos') =>
            .ok (.text s (match first with | some f => decide (f ≤ i) | none => false) :: out, pos')

def runBytes (blob : List Nat) (w : Nat) : List Nat → Nat → Res (List PyConst)
  | [], _ => .ok []
  | v :: rest, pos =>
    match bitfield w v with
    | .err e => .err e
    | .ok len =>
      match slice blob pos len with
      | .err e => .err e
      | .ok raw =>
        match runBytes blob w rest (pos + len) with
        | .err e => .err e
        | .ok out => .ok (.bytes raw :: out)

/-- an `int` loop variable counting to `n` -/
def loopVarOK (p : TableP) (n : Nat) : Bool := if n < p.intLoopLimit then decide (n ≤ 32767) else true

/-- The string-table part of `__Pyx_InitConstants` on the artefacts of a layout, with
`data` the bytes the C array `bytes` holds. -/
def runTable (p : TableP) (L : Layout) (data : List Nat) : Res (List PyConst) :=
  if ¬ (loopVarOK p L.nText ∧ loopVarOK p L.nTotal) then .err "ub-int-overflow"
  else
    match runTexts data L.strWidth L.firstInterned L.strIndex 0 0 with
    | .err e => .err e
    | .ok (ts, pos) =>
      match runBytes data L.bytesWidth L.bytesIndex pos with
      | .err e => .err e
      | .ok bs => .ok (ts ++ bs)

/-- the constants the module was written with, in table order -/
def expected (ts : List TextEntry) (bs : List BytesEntry) : List PyConst :=
  ts.map (fun e => .text e.text e.interned) ++ bs.map (fun e => .bytes e.data)

/-- `runtime_table (compile_table xs)`: generate the table, then run the generated loops on the
blob that was written -/
def compileRun (p : TableP) (ts : List TextEntry) (bs : List BytesEntry) : Res (List PyConst) :=
  match compileTable p ts bs with
  | .err e => .err e
  | .ok L => runTable p L L.blob

/-! ## Where the bytes come from: the `#if` chain on `CYTHON_COMPRESS_STRINGS` -/

/-- `__Pyx_DecompressString_LZSS(s, compressed_length, uncompressed_length)` on an array
holding `src`: allocate `uncompressed_length` bytes, run the decoder (C12), compare the
number of consumed bytes with `compressed_length` -/
def lzssWrapper (src : List Nat) (compLen uncompLen : Nat) : Res (List Nat) :=
  match C12.decompress src uncompLen with
  | .ok out pos => if pos ≠ compLen then .err "RuntimeError" else .ok out.toList
  | .ub k => .err ("ub-" ++ k)
  | .fuel => .err "fuel"

inductive Algo where
  | lzss | zlib | bz2 | zstd
  deriving DecidableEq, Repr

/-- one entry of `compression_algorithms`: the mval value and the algorithm -/
structure AlgoEnt where
  number : Nat
  algo : Algo
  deriving DecidableEq, Repr

/-- the guard of the `#if` / `#elif` written for an entry -/
def guardOK (e : AlgoEnt) (mval : Int) (py314 : Bool) : Bool :=
  match e.algo with
  | .zstd => decide (mval = (e.number : Int)) && py314
  | .lzss => decide (0 < mval) && decide (mval ≤ (e.number : Int))
  | _ => decide (mval = (e.number : Int))

/-- `#if … #elif … #else`: the first emitted branch whose guard holds -/
def selectBranch (chain : List AlgoEnt) (mval : Int) (py314 : Bool) : Option AlgoEnt :=
  chain.find? (guardOK · mval py314)

/-- `__Pyx_DecompressString`: `module_name = algo == 3 ? "compression.zstd" : algo == 2 ? "bz2" : "zlib"` -/
def cModule (n : Nat) : Algo := if n = 3 then .zstd else if n = 2 then .bz2 else .zlib

/-- every non-LZSS entry passes a number that makes the C side import the module whose
compressor was used -/
def chainWF (chain : List AlgoEnt) : Bool :=
  chain.all fun e => e.algo == .lzss || cModule e.number == e.algo

/-- CPython's own compressors / decompressors (`zlib`, `bz2`, `compression.zstd`): trusted -/
structure Codec where
  comp : Algo → List Nat → List Nat
  decomp : Algo → List Nat → Option (List Nat)

def Codec.Inverse (cd : Codec) : Prop := ∀ a d, cd.decomp a (cd.comp a d) = some d

/-- the bytes the C variable `bytes` points to in the branch written for `e` -/
def branchData (P12 : C12.Params) (cd : Codec) (e : AlgoEnt) (blob : List Nat) : Res (List Nat) :=
  match e.algo with
  | .lzss =>
    match C12.compress P12 blob.toArray with
    | .ok c => lzssWrapper c.toList c.size blob.length
    | .err x => .err x
  | a =>
    match cd.decomp (cModule e.number) (cd.comp a blob) with
    | some d => .ok d
    | none => .err "decompress"

/-- the bytes the run-time loops walk over, for a value of the mval -/
def runtimeData (P12 : C12.Params) (cd : Codec) (chain : List AlgoEnt) (mval : Int) (py314 : Bool)
    (blob : List Nat) : Res (List Nat) :=
  match selectBranch chain mval py314 with
  | none => .ok blob
  | some e => branchData P12 cd e blob

end CyVerif.C10

import CyVerif.Model.C18Field
/-!
Model of `__Pyx_PyUnicode_Join` (`Cython/Utility/StringTools.c`, section `JoinPyUnicode`, CPython
branch) and of the `(result_ulength, kind)` arguments computed by
`JoinedStrNode.generate_evaluation_code` (`Cython/Compiler/ExprNodes.py`).

The result buffer is bounds-checked; a cell holds a code point reduced to the width of the result
kind (what `memcpy` / `_PyUnicode_FastCopyCharacters` store in a release build).
-/
namespace CyVerif.C18

/-- `__Pyx_PyUnicode_KIND_04` / `UnicodeNode.get_ustring_kind`: 0 ASCII, 1 Latin-1, 2 BMP, 4 other -/
def kind04 (s : List Nat) : Nat :=
  let m := s.foldl max 0
  if m < 128 then 0 else if m < 256 then 1 else if m < 65536 then 2 else 4

/-- values of a `JoinedStrNode` at run time -/
inductive JNode where
  /-- `UnicodeNode`: text known at compile time -/
  | lit (s : List Nat)
  /-- any other value with its run-time text; `assumedAscii`: the compiler left it out of the kind
  computation ("Formatted C numbers are always ASCII") -/
  | val (s : List Nat) (assumedAscii : Bool)
  deriving Repr, DecidableEq

def JNode.text : JNode → List Nat
  | .lit s => s
  | .val s _ => s

/-- `(result_ulength, kind)` as generated: lengths are exact (read at run time); the kind is the
maximum literal kind or-ed with `KIND_04` of the values that are not assumed ASCII -/
def joinArgs (nodes : List JNode) : Nat × Nat :=
  let len : Nat := (nodes.map fun n => n.text.length).sum
  let litKind : Nat := (nodes.map fun n => match n with | .lit s => kind04 s | .val _ _ => 0).foldl max 0
  let kind : Nat :=
    if litKind = 4 then 4
    else nodes.foldl (fun k n => match n with | .val s false => k ||| kind04 s | _ => k) litKind
  (len, kind)

/-- copy one value into the result at `pos`; `none` = write outside the buffer -/
def joinWrite (cellMax : Nat) : List (Option Nat) → Nat → List Nat → Option (List (Option Nat))
  | buf, _, [] => some buf
  | buf, pos, c :: cs =>
    if pos < buf.length then joinWrite cellMax (buf.set pos (some (c % cellMax))) (pos + 1) cs else none

def joinLoop (cellMax : Nat) : List (List Nat) → List (Option Nat) → Nat → Option (List (Option Nat))
  | [], buf, _ => some buf
  | v :: vs, buf, pos =>
    match joinWrite cellMax buf pos v with
    | some buf' => joinLoop cellMax vs buf' (pos + v.length)
    | none => none

def collectNat : List (Option Nat) → Option (List Nat)
  | [] => some []
  | some c :: r => (collectNat r).map (c :: ·)
  | none :: _ => none

/-- `__Pyx_PyUnicode_Join(values, value_count, result_ulength, kind)` -/
def pyxJoin (values : List (List Nat)) (resultLen kind : Nat) : OutU :=
  let kind := if kind > 4 then 4 else kind
  let kindShift := kind >>> 1                    -- 0, 1, 2
  let cellMax := 2 ^ (8 * (1 <<< kindShift))     -- result_ukind = 1 << kind_shift bytes per cell
  match joinLoop cellMax values (List.replicate resultLen none) 0 with
  | none => .ub "oob-write"
  | some buf =>
    match collectNat buf with
    | some s => .text s
    | none => .ub "uninit"

/-- does `generate_evaluation_code` treat a C-formatted numeric field as ASCII?
`kindFixed = false`: `c_format_spec != 'c'`;  `true`: the spec does not end in `c` -/
def assumedAsciiSpec (kindFixed : Bool) (cspec : List Char) : Bool :=
  if kindFixed then cspec.getLast? ≠ some 'c' else cspec ≠ ['c']

end CyVerif.C18

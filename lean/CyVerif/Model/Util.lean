/-! Shared helpers for the line-protocol driver (no Mathlib). -/
namespace CyVerif

/-- Outcome of a modelled operation: a value or a Python exception name. -/
inductive Res (α : Type) where
  | ok (v : α)
  | err (e : String)
  deriving DecidableEq, Repr

def Res.render {α} [ToString α] : Res α → String
  | .ok v => s!"ok {v}"
  | .err e => s!"err {e}"

/-- Parse a decimal integer with optional leading '-'. -/
def parseInt? (s : String) : Option Int := s.toInt?

def parseNat? (s : String) : Option Nat := s.toNat?

/-- hex string (two chars per byte) -> bytes -/
def hexVal (c : Char) : Option Nat :=
  if '0' ≤ c ∧ c ≤ '9' then some (c.toNat - '0'.toNat)
  else if 'a' ≤ c ∧ c ≤ 'f' then some (c.toNat - 'a'.toNat + 10)
  else if 'A' ≤ c ∧ c ≤ 'F' then some (c.toNat - 'A'.toNat + 10)
  else none

def parseHexBytes (s : String) : Option (List Nat) :=
  let rec go : List Char → List Nat → Option (List Nat)
    | [], acc => some acc.reverse
    | [_], _ => none
    | a :: b :: rest, acc =>
      match hexVal a, hexVal b with
      | some x, some y => go rest ((x * 16 + y) :: acc)
      | _, _ => none
  if s == "-" then some [] else go s.toList []

def hexDigit (n : Nat) : Char :=
  if n < 10 then Char.ofNat (n + '0'.toNat) else Char.ofNat (n - 10 + 'a'.toNat)

def bytesToHex (bs : List Nat) : String :=
  if bs.isEmpty then "-" else
  String.ofList (bs.flatMap fun b => [hexDigit (b / 16 % 16), hexDigit (b % 16)])

def intsToStr (xs : List Int) : String :=
  "[" ++ ",".intercalate (xs.map toString) ++ "]"

def natsToStr (xs : List Nat) : String :=
  "[" ++ ",".intercalate (xs.map toString) ++ "]"

end CyVerif

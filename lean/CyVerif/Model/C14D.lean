import CyVerif.Model.Util
/-!
Model for C14, dict / set iteration (Cython/Utility/Optimize.c `dict_iter`, `set_iter`; Nodes.py `DictIterationNextNode`,
`SetIterationNextNode`) next to a model of CPython 3.12's own iterators (`dictiter_iternextkey/value/item`,
`setiter_iternext`).

A dict is seen through its entries array (`DK_ENTRIES`): insertion-ordered slots, a deleted slot stays as a hole until
the table is rebuilt.  A set is seen through its hash table slots.  Both iterators of each pair walk the same array with an
index; they differ in the checks they make.
-/
namespace CyVerif.C14D

/-- entries array: `none` = hole (deleted entry) -/
abbrev Entries := List (Option (Int × Int))

def used (es : Entries) : Nat := (es.filter Option.isSome).length

/-- index, key and value of the first live entry at index ≥ `i` of `es`, given the part of `es` from `i` on -/
def scanFrom : List (Option (Int × Int)) → Nat → Option (Nat × Int × Int)
  | [], _ => none
  | none :: r, i => scanFrom r (i + 1)
  | some (k, v) :: _, i => some (i, k, v)

/-- `while (i < n && entry[i].value == NULL) i++` (`PyDict_Next`, `dictiter_iternext*`, `set_next`, `setiter_iternext`) -/
def scan (es : Entries) (i : Nat) : Option (Nat × Int × Int) := scanFrom (es.drop i) i

inductive Err where
  | sizeChanged   -- RuntimeError "dictionary changed size during iteration" / "Set changed size during iteration"
  | keysChanged   -- RuntimeError "dictionary keys changed during iteration" (CPython only)
  deriving DecidableEq, Repr

inductive Step where
  | item (k v : Int)
  | stop
  | err (e : Err)
  deriving DecidableEq, Repr

/-- CPython `dictiterobject`: `di_used`, `di_pos`, `len` -/
structure PyIt where
  used : Nat
  pos : Nat
  len : Nat
  deriving DecidableEq, Repr

/-- the temps of the Cython loop: `orig_length` and `pos` -/
structure CyIt where
  orig : Nat
  pos : Nat
  deriving DecidableEq, Repr

def pyInit (es : Entries) : PyIt := ⟨used es, 0, used es⟩
def cyInit (es : Entries) : CyIt := ⟨used es, 0⟩

/-- `dictiter_iternextkey` & co. (CPython 3.12) on the current state `es` of the dict -/
def pyNext (it : PyIt) (es : Entries) : Step × PyIt :=
  if it.used ≠ used es then (.err .sizeChanged, it)
  else match scan es it.pos with
    | none => (.stop, it)
    | some (i, k, v) =>
      if it.len = 0 then (.err .keysChanged, it)
      else (.item k v, { it with pos := i + 1, len := it.len - 1 })

/-- `__Pyx_dict_iter_next` with `source_is_dict`: the `orig_length` test, then `PyDict_Next` -/
def cyNext (it : CyIt) (es : Entries) : Step × CyIt :=
  if it.orig ≠ used es then (.err .sizeChanged, it)
  else match scan es it.pos with
    | none => (.stop, it)
    | some (i, k, v) => (.item k v, { it with pos := i + 1 })

/-- outcomes of successive `next` calls; `hist` = the dict's entries array as it is at the 1st, 2nd, … call (ANY mutation in
    between); the run ends with the first `stop`/`err` -/
def pyRun (it : PyIt) : List Entries → List Step
  | [] => []
  | es :: rest =>
    match pyNext it es with
    | (.item k v, it') => .item k v :: pyRun it' rest
    | (s, _) => [s]

def cyRun (it : CyIt) : List Entries → List Step
  | [] => []
  | es :: rest =>
    match cyNext it es with
    | (.item k v, it') => .item k v :: cyRun it' rest
    | (s, _) => [s]

/-! ### sets: CPython `setiter_iternext` (no `len` test) vs `__Pyx_set_iter_next` (`_PySet_NextEntry`) -/

def pySetNext (it : PyIt) (tbl : Entries) : Step × PyIt :=
  if it.used ≠ used tbl then (.err .sizeChanged, it)
  else match scan tbl it.pos with
    | none => (.stop, it)
    | some (i, k, v) => (.item k v, { it with pos := i + 1, len := it.len - 1 })

def cySetNext (it : CyIt) (tbl : Entries) : Step × CyIt :=
  if it.orig ≠ used tbl then (.err .sizeChanged, it)
  else match scan tbl it.pos with
    | none => (.stop, it)
    | some (i, k, v) => (.item k v, { it with pos := i + 1 })

def pySetRun (it : PyIt) : List Entries → List Step
  | [] => []
  | es :: rest =>
    match pySetNext it es with
    | (.item k v, it') => .item k v :: pySetRun it' rest
    | (s, _) => [s]

def cySetRun (it : CyIt) : List Entries → List Step
  | [] => []
  | es :: rest =>
    match cySetNext it es with
    | (.item k v, it') => .item k v :: cySetRun it' rest
    | (s, _) => [s]

/-! ### executable CPython 3.12 dict (combined general-keys table, int keys) — used only to drive the tie -/

structure PyDict where
  entries : Entries
  usable : Int        -- dk_usable
  log2 : Nat          -- dk_log2_size
  empty : Bool        -- still the shared empty keys object
  deriving Repr

def newDict : PyDict := ⟨[], 0, 0, true⟩

def bitLength (n : Nat) : Nat := if n = 0 then 0 else Nat.log2 n + 1

/-- `calculate_log2_keysize` -/
def keySize (minsize : Nat) : Nat := bitLength (((minsize ||| 8) - 1) ||| 7)

/-- `USABLE_FRACTION(n) = (n << 1) / 3` -/
def usableFraction (n : Nat) : Nat := (2 * n) / 3

def findKey : Entries → Int → Nat → Option Nat
  | [], _, _ => none
  | some (k', _) :: r, k, i => if k' = k then some i else findKey r k (i + 1)
  | none :: r, k, i => findKey r k (i + 1)

inductive Op where
  | set (k v : Int)
  | del (k : Int)      -- `d.pop(k, None)`
  | clear
  deriving Repr

def setItem (d : PyDict) (k v : Int) : PyDict :=
  match findKey d.entries k 0 with
  | some i => { d with entries := d.entries.set i (some (k, v)) }
  | none =>
    let d1 : PyDict := if d.empty then ⟨[], usableFraction 8, 3, false⟩ else d
    let d2 : PyDict :=
      if d1.usable ≤ 0 then
        -- insertion_resize: rebuild the table, holes disappear
        let live := d1.entries.filter Option.isSome
        let l := keySize (live.length * 3)
        ⟨live, (usableFraction (2 ^ l) : Int) - live.length, l, false⟩
      else d1
    { d2 with entries := d2.entries ++ [some (k, v)], usable := d2.usable - 1 }

def delItem (d : PyDict) (k : Int) : PyDict :=
  match findKey d.entries k 0 with
  | some i => { d with entries := d.entries.set i none }
  | none => d

def applyOp (d : PyDict) : Op → PyDict
  | .set k v => setItem d k v
  | .del k => delItem d k
  | .clear => newDict

inductive Variant where
  | cy | py
  deriving DecidableEq, Repr

structure RunSt where
  d : PyDict
  cy : CyIt
  py : PyIt
  vis : List (Int × Int)   -- newest first
  deriving Repr

inductive Res where
  | ok (vis : List (Int × Int)) (elseRan : Bool)
  | err (e : Err) (vis : List (Int × Int))
  | runaway (vis : List (Int × Int))

/-- `for k[, v] in d[.keys()/.values()/.items()]: out.append(…); if n == brk: break; <script ops of this visit>` -/
def runDict (isSet : Bool) (variant : Variant) (script : List (List Op)) (brk : Int) : Nat → RunSt → Res
  | 0, st => .runaway st.vis.reverse
  | fuel + 1, st =>
    let stepCy := if isSet then cySetNext st.cy st.d.entries else cyNext st.cy st.d.entries
    let stepPy := if isSet then pySetNext st.py st.d.entries else pyNext st.py st.d.entries
    let step : Step := match variant with | .cy => stepCy.1 | .py => stepPy.1
    match step with
    | .stop => .ok st.vis.reverse true
    | .err e => .err e st.vis.reverse
    | .item k v =>
      let vis := (k, v) :: st.vis
      let n : Int := st.vis.length
      if n = brk then .ok vis.reverse false
      else
        let ops := script.getD st.vis.length []
        let d' := ops.foldl applyOp st.d
        runDict isSet variant script brk fuel { d := d', cy := stepCy.2, py := stepPy.2, vis := vis }

def parseOp (s : String) : Option Op :=
  match s.toList with
  | 'c' :: [] => some .clear
  | 'd' :: r => (String.ofList r).toInt?.map Op.del
  | 's' :: r =>
    match (String.ofList r).splitOn "=" with
    | [k, v] => match k.toInt?, v.toInt? with
      | some k, some v => some (.set k v)
      | _, _ => none
    | _ => none
  | _ => none

def parseStep (s : String) : Option (List Op) :=
  if s == "-" then some [] else (s.splitOn ",").mapM parseOp

def parseScript (s : String) : Option (List (List Op)) :=
  if s == "-" then some [] else (s.splitOn "/").mapM parseStep

def parseInts (s : String) : Option (List Int) :=
  if s == "-" then some [] else (s.splitOn ",").mapM String.toInt?

def renderVis (what : String) (vis : List (Int × Int)) : String :=
  let f : Int × Int → String := fun (k, v) =>
    if what == "keys" then toString k else if what == "values" then toString v else s!"{k}:{v}"
  "[" ++ ",".intercalate (vis.map f) ++ "]"

def renderRes (what : String) : Res → String
  | .ok vis e => s!"ok {renderVis what vis} else={if e then 1 else 0}"
  | .err .sizeChanged vis => s!"err RuntimeError size {renderVis what vis}"
  | .err .keysChanged vis => s!"err RuntimeError keys {renderVis what vis}"
  | .runaway vis => s!"runaway {renderVis what vis}"

def handle : List String → String
  | ["dict", variant, what, keys, script, brk, cap] =>
    let v? : Option Variant := if variant == "cy" then some .cy else if variant == "py" then some .py else none
    match v?, parseInts keys, parseScript script, brk.toInt?, cap.toNat? with
    | some v, some ks, some sc, some brk, some cap =>
      if what != "keys" && what != "values" && what != "items" then "bad-op" else
      -- `d = {}; for k in keys: d[k] = 10 * k`
      let d := ks.foldl (fun d k => setItem d k (10 * k)) newDict
      renderRes what (runDict false v sc brk cap ⟨d, cyInit d.entries, pyInit d.entries, []⟩)
    | _, _, _, _, _ => "bad-op"
  | ["set", variant, keys, script, brk, cap] =>
    -- the table is given by its live keys in iteration order; `sK=0` adds a NEW key (appended), `dK` removes one
    let v? : Option Variant := if variant == "cy" then some .cy else if variant == "py" then some .py else none
    match v?, parseInts keys, parseScript script, brk.toInt?, cap.toNat? with
    | some v, some ks, some sc, some brk, some cap =>
      let tbl : Entries := ks.map fun k => some (k, 0)
      let d : PyDict := ⟨tbl, 1000000, 20, false⟩
      renderRes "keys" (runDict true v sc brk cap ⟨d, cyInit tbl, pyInit tbl, []⟩)
    | _, _, _, _, _ => "bad-op"
  | _ => "bad-op"

end CyVerif.C14D

import CyVerif.Model.C01
/-!
C01 run-time part: a mini-AST of nested scopes, its summary as a `Scope` tree (what both symbol-table
builders collect), and an executable store semantics driven by a resolution table (`List Entry`):
activation frames with static links (CPython: cells shared by the owner and all closures created in
that activation; Cython: closure-class object reached through `outer_scope` pointers), a module dict
with builtins fallback, class-body dicts, late binding, UnboundLocalError / NameError on unbound reads.
`runRef` uses the CPython table, `runCy v` the Cython table of variant `v`.
-/
namespace CyVerif.C01

mutual
inductive Expr
  | lit (s : List Nat)                                   -- string constant (atoms printed as letters)
  | name (x : Name)
  | walrus (x : Name) (e : Expr)                         -- (x := e)
  | cat (a b : Expr)                                     -- a + b
  | lam (id : Nat) (ps : List Name) (dflt : Exprs) (body : Expr)
  | comp (id : Nat) (gen : Bool) (x : Name) (iters : Exprs) (elt : Expr)  -- [elt for x in (iters,)] / [*(elt for x in (iters,))]
  | call (f : Expr) (args : Exprs)
inductive Exprs | nil | cons (e : Expr) (es : Exprs)
inductive Stmt
  | assign (x : Name) (e : Expr)
  | aug (x : Name) (e : Expr)                            -- x += e
  | glob (x : Name) | nonl (x : Name) | del (x : Name)
  | fdef (id : Nat) (f : Name) (ps : List Name) (dflt : Exprs) (body : Stmts)
  | cdef (id : Nat) (c : Name) (body : Stmts)
  | obs (e : Expr)                                       -- _obs(e): log the value
  | ret (e : Expr)
  | ifc (c : Expr) (body : Stmts)
inductive Stmts | nil | cons (s : Stmt) (ss : Stmts)
end

/-! ### summary: AST -> scope tree -/
structure Acc where
  assigned : List Name := []
  globals : List Name := []
  nonlocals : List Name := []
  uses : List Name := []
  hoist : List Name := []        -- walrus targets met inside a comprehension: bound in the enclosing non-comprehension scope
  kids : List Scope := []
  deriving Inhabited

def Kids.ofList : List Scope → Kids
  | [] => .nil
  | s :: r => .cons s (Kids.ofList r)

def Acc.addHoisted (inComp : Bool) (a : Acc) (hs : List Name) : Acc :=
  if inComp then { a with uses := a.uses ++ hs, hoist := a.hoist ++ hs } else { a with assigned := a.assigned ++ hs }

def mkScope (id : Nat) (k : SK) (ps : List Name) (a : Acc) : Scope :=
  .mk id ⟨k, ps, a.assigned, a.globals, a.nonlocals, a.uses⟩ (Kids.ofList a.kids)

mutual
def colE (inComp : Bool) : Expr → Acc → Acc
  | .lit _, a => a
  | .name x, a => { a with uses := a.uses ++ [x] }
  | .walrus x e, a =>
      let a := colE inComp e a
      if inComp then { a with uses := a.uses ++ [x], hoist := a.hoist ++ [x] } else { a with assigned := a.assigned ++ [x] }
  | .cat l r, a => colE inComp r (colE inComp l a)
  | .lam id ps d body, a =>
      let a := colEs inComp d a
      let c := colE false body {}
      { a with kids := a.kids ++ [mkScope id .func ps c] }
  | .comp id gen x its elt, a =>
      let a := colEs inComp its a
      let c := colE true elt {}
      let a := { a with kids := a.kids ++ [mkScope id (if gen then .gen else .comp) [x] c] }
      a.addHoisted inComp c.hoist
  | .call f args, a => colEs inComp args (colE inComp f a)
def colEs (inComp : Bool) : Exprs → Acc → Acc
  | .nil, a => a
  | .cons e es, a => colEs inComp es (colE inComp e a)
end

mutual
def colS : Stmt → Acc → Acc
  | .assign x e, a => let a := colE false e a; { a with assigned := a.assigned ++ [x] }
  | .aug x e, a => let a := colE false e a; { a with assigned := a.assigned ++ [x] }
  | .glob x, a => { a with globals := a.globals ++ [x] }
  | .nonl x, a => { a with nonlocals := a.nonlocals ++ [x] }
  | .del x, a => { a with assigned := a.assigned ++ [x] }
  | .fdef id f ps d body, a =>
      let a := colEs false d a
      let c := colSs body {}
      { a with assigned := a.assigned ++ [f], kids := a.kids ++ [mkScope id .func ps c] }
  | .cdef id c body, a =>
      let b := colSs body {}
      { a with assigned := a.assigned ++ [c], kids := a.kids ++ [mkScope id .cls [] b] }
  | .obs e, a => colE false e a
  | .ret e, a => colE false e a
  | .ifc c body, a => colSs body (colE false c a)
def colSs : Stmts → Acc → Acc
  | .nil, a => a
  | .cons s ss, a => colSs ss (colS s a)
end

/-! ### what `ConstantFolding` + `RemoveUnreachableCode` (both run before `AnalyseDeclarationsTransform`)
    leave of a body: `if <constant false>:` clauses and statements after `return` are gone -/
def isConstFalse : Expr → Bool
  | .lit [] => true
  | _ => false

def Exprs.isNil : Exprs → Bool | .nil => true | _ => false

mutual
def pruneE : Expr → Expr
  | .walrus x e => .walrus x (pruneE e)
  | .cat a b => .cat (pruneE a) (pruneE b)
  | .lam id ps d body => .lam id ps (pruneEs d) (pruneE body)
  | .comp id gen x its elt =>
      -- a loop over a constant empty tuple is removed together with its body (for a generator
      -- expression the generator function itself remains, its loop body does not)
      if its.isNil then .comp id gen x .nil (.lit []) else .comp id gen x (pruneEs its) (pruneE elt)
  | .call f args => .call (pruneE f) (pruneEs args)
  | e => e
def pruneEs : Exprs → Exprs
  | .nil => .nil
  | .cons e es => .cons (pruneE e) (pruneEs es)
end

mutual
def pruneS : Stmt → Stmt
  | .assign x e => .assign x (pruneE e)
  | .aug x e => .aug x (pruneE e)
  | .fdef id f ps d body => .fdef id f ps (pruneEs d) (pruneSs body)
  | .cdef id c body => .cdef id c (pruneSs body)
  | .obs e => .obs (pruneE e)
  | .ret e => .ret (pruneE e)
  | .ifc c body => .ifc (pruneE c) (pruneSs body)
  | s => s
def pruneSs : Stmts → Stmts
  | .nil => .nil
  | .cons s ss =>
    match s with
    | .ifc c _ => if isConstFalse c then pruneSs ss else .cons (pruneS s) (pruneSs ss)
    | .ret _ => .cons (pruneS s) .nil
    | _ => .cons (pruneS s) (pruneSs ss)
end

/-- the module's scope tree (module id 0, path `[0]`) -/
def scopeOf (prog : Stmts) : Scope := mkScope 0 .modl [] (colSs prog {})

end CyVerif.C01

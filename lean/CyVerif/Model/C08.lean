import CyVerif.Model.Util
/-!
# C08 — C complex arithmetic (`Cython/Utility/Complex.c`, `CYTHON_CCOMPLEX=0`) vs CPython 3.12
# (`Objects/complexobject.c`), as expression trees over ABSTRACT floating-point operations.

`FOps F` is a bare signature: no algebraic law is built in.  Every theorem in `Props/C08.lean`
quantifies over every `F` and every `o : FOps F`, and names the IEEE-754 facts it uses as hypotheses
(`structure` of laws in `Lemmas/C08Laws.lean`).  The intended interpretation is IEEE binary64 (or
binary32 for `float complex`) with all NaNs identified.  `floatOps` instantiates the signature with
Lean's `Float` (C `double` when compiled; `+ - * / < <= == fabs` have a kernel-reducible logical model
in Lean 4.33, so counterexamples on real doubles are checked by the kernel); the libm fields
(`hypot, atan2, log, exp, sin, cos, pow`) are opaque there and only used by the compiled driver.
-/
namespace CyVerif.C08

structure FOps (F : Type) where
  zero : F
  one : F
  nan : F                         -- `Py_NAN`
  add : F → F → F
  sub : F → F → F
  mul : F → F → F
  div : F → F → F
  neg : F → F
  abs : F → F                     -- `fabs`
  eq : F → F → Bool               -- C `==`
  lt : F → F → Bool               -- C `<`
  le : F → F → Bool               -- C `<=`
  isNaN : F → Bool
  isInf : F → Bool
  floor : F → F
  truncInt : F → Int              -- C `(int)x` / `(long)x`; out of range: the x86 value INT_MIN
  ofInt : Int → F                 -- C `(double)i`
  hundred : F                     -- the literal `100.0`
  hypot : F → F → F
  atan2 : F → F → F
  pow : F → F → F
  sqrt : F → F
  log : F → F
  exp : F → F
  sin : F → F
  cos : F → F

structure Cx (F : Type) where
  re : F
  im : F
  deriving DecidableEq, Repr

variable {F : Type}

/-! ## Cython: `Complex.c`, section `Arithmetic`, `#else` branch (struct arithmetic) -/

def cyEq (o : FOps F) (a b : Cx F) : Bool := o.eq a.re b.re && o.eq a.im b.im
def cySum (o : FOps F) (a b : Cx F) : Cx F := ⟨o.add a.re b.re, o.add a.im b.im⟩
def cyDiff (o : FOps F) (a b : Cx F) : Cx F := ⟨o.sub a.re b.re, o.sub a.im b.im⟩
def cyProd (o : FOps F) (a b : Cx F) : Cx F :=
  ⟨o.sub (o.mul a.re b.re) (o.mul a.im b.im), o.add (o.mul a.re b.im) (o.mul a.im b.re)⟩
def cyNeg (o : FOps F) (a : Cx F) : Cx F := ⟨o.neg a.re, o.neg a.im⟩
def cyIsZero (o : FOps F) (a : Cx F) : Bool := o.eq a.re o.zero && o.eq a.im o.zero
def cyConj (o : FOps F) (a : Cx F) : Cx F := ⟨a.re, o.neg a.im⟩

/-- which text of `__Pyx_c_quot` (float real type) the source has -/
inductive QuotVariant where
  | pinned     -- `b.imag == 0` shortcut, Smith's method with a reciprocal `s = 1.0 / denom` and `* s`
  | ported     -- CPython's `_Py_c_quot` (ratio / denom, NaN branch), zero divisor: C division
  deriving DecidableEq, Repr

/-- `x < 0 ? -x : x` (CPython's `abs_breal`) -/
def absLt (o : FOps F) (x : F) : F := if o.lt x o.zero then o.neg x else x

def cyQuotPinned (o : FOps F) (a b : Cx F) : Cx F :=
  if o.eq b.im o.zero then ⟨o.div a.re b.re, o.div a.im b.re⟩
  else if o.le (o.abs b.im) (o.abs b.re) then
    if o.eq b.re o.zero && o.eq b.im o.zero then ⟨o.div a.re b.re, o.div a.im b.im⟩
    else
      let r := o.div b.im b.re
      let s := o.div o.one (o.add b.re (o.mul b.im r))
      ⟨o.mul (o.add a.re (o.mul a.im r)) s, o.mul (o.sub a.im (o.mul a.re r)) s⟩
  else
    let r := o.div b.re b.im
    let s := o.div o.one (o.add b.im (o.mul b.re r))
    ⟨o.mul (o.add (o.mul a.re r) a.im) s, o.mul (o.sub (o.mul a.im r) a.re) s⟩

def cyQuotPorted (o : FOps F) (a b : Cx F) : Cx F :=
  let abr := absLt o b.re
  let abi := absLt o b.im
  if o.le abi abr then
    if o.eq abr o.zero then ⟨o.div a.re b.re, o.div a.im b.re⟩
    else
      let ratio := o.div b.im b.re
      let denom := o.add b.re (o.mul b.im ratio)
      ⟨o.div (o.add a.re (o.mul a.im ratio)) denom, o.div (o.sub a.im (o.mul a.re ratio)) denom⟩
  else if o.le abr abi then
    let ratio := o.div b.re b.im
    let denom := o.add (o.mul b.re ratio) b.im
    ⟨o.div (o.add (o.mul a.re ratio) a.im) denom, o.div (o.sub (o.mul a.im ratio) a.re) denom⟩
  else ⟨o.nan, o.nan⟩

def cyQuot (v : QuotVariant) (o : FOps F) (a b : Cx F) : Cx F :=
  match v with
  | .pinned => cyQuotPinned o a b
  | .ported => cyQuotPorted o a b

/-- the non-float (`{{is_float}} == 0`, integer complex) variant: textbook formula -/
def cyQuotNaive (o : FOps F) (a b : Cx F) : Cx F :=
  if o.eq b.im o.zero then ⟨o.div a.re b.re, o.div a.im b.re⟩
  else
    let denom := o.add (o.mul b.re b.re) (o.mul b.im b.im)
    ⟨o.div (o.add (o.mul a.re b.re) (o.mul a.im b.im)) denom,
     o.div (o.sub (o.mul a.im b.re) (o.mul a.re b.im)) denom⟩

/-- `__Pyx_c_abs`: `haveHypot = false` is the `!defined(HAVE_HYPOT) || defined(_MSC_VER)` branch -/
def cyAbs (haveHypot : Bool) (o : FOps F) (z : Cx F) : F :=
  if haveHypot then o.hypot z.re z.im
  else o.sqrt (o.add (o.mul z.re z.re) (o.mul z.im z.im))

/-- the polar tail of `__Pyx_c_pow` -/
def cyPolar (o : FOps F) (r theta : F) (b : Cx F) : Cx F :=
  let lnr := o.log r
  let z_r := o.exp (o.sub (o.mul lnr b.re) (o.mul theta b.im))
  let z_theta := o.add (o.mul theta b.re) (o.mul lnr b.im)
  ⟨o.mul z_r (o.cos z_theta), o.mul z_r (o.sin z_theta)⟩

/-- which path `__Pyx_c_pow` takes (reported by the driver, used to choose exact / approximate comparison) -/
inductive PowPath where
  | int (k : Nat) (inverted : Bool)
  | zeroBase
  | realPow
  | polar
  deriving DecidableEq, Repr

def cyPowCore (haveHypot : Bool) (o : FOps F) (a b : Cx F) : PowPath × Cx F :=
  let intCase := o.eq b.im o.zero && o.eq b.re (o.ofInt (o.truncInt b.re))
  let inv := intCase && o.lt b.re o.zero
  let denom := o.add (o.mul a.re a.re) (o.mul a.im a.im)
  let a1 : Cx F := if inv then ⟨o.div a.re denom, o.div (o.neg a.im) denom⟩ else a
  let b1 : Cx F := if inv then ⟨o.neg b.re, b.im⟩ else b
  let k : Int := o.truncInt b1.re
  let sq := cyProd o a1 a1
  if intCase && k == 0 then (.int 0 inv, ⟨o.one, o.zero⟩)
  else if intCase && k == 1 then (.int 1 inv, a1)
  else if intCase && k == 2 then (.int 2 inv, sq)
  else if intCase && k == 3 then (.int 3 inv, cyProd o sq a1)
  else if intCase && k == 4 then (.int 4 inv, cyProd o sq sq)
  else if o.eq a1.im o.zero then
    if o.eq a1.re o.zero then (.zeroBase, a1)
    else if o.eq b1.im o.zero && o.le o.zero a1.re then (.realPow, ⟨o.pow a1.re b1.re, o.zero⟩)
    else if o.lt o.zero a1.re then (.polar, cyPolar o a1.re o.zero b1)
    else (.polar, cyPolar o (o.neg a1.re) (o.atan2 o.zero (o.neg o.one)) b1)
  else (.polar, cyPolar o (cyAbs haveHypot o a1) (o.atan2 a1.im a1.re) b1)

def cyPow (haveHypot : Bool) (o : FOps F) (a b : Cx F) : Cx F := (cyPowCore haveHypot o a b).2

/-- `DivNode` on a complex type: `zerodivision_check` ⇒ `if (__Pyx_c_is_zero(b)) raise`, then `__Pyx_c_quot` -/
def cyDivNode (v : QuotVariant) (cdivision : Bool) (o : FOps F) (a b : Cx F) : Res (Cx F) :=
  if !cdivision && cyIsZero o b then .err "ZeroDivisionError" else .ok (cyQuot v o a b)

end CyVerif.C08

import CyVerif.Model.C16Spec
/-!
Compile-time rewrite `view[x][y]` => `view[x, y]`:
`MemoryViewSliceNode.merged_indices` (Cython/Compiler/ExprNodes.py), and the
meaning it has to preserve: apply `x`, then apply `y` to the resulting view.
-/
namespace CyVerif.C16
open PySlice

/-- The loop of `merged_indices(indices)`.  `xs` = rest of `self.original_indices`
(the first subscript, already expanded), `ys` = what is left of the second
subscript, `acc` = `new_indices` so far.  `guard` = the branch
`elif not s.type.is_int: return None` is present (a `None` entry stops the merge). -/
def mergeLoop (guard : Bool) (ndim : Nat) : List Item → List Item → List Item → Option (List Item)
  | [], ys, acc =>
    if ys.isEmpty then some acc
    else if acc.length + ys.length > ndim then none else some (acc ++ ys)
  | x :: xs, [], acc => some (acc ++ x :: xs)          -- `if not indices: return new_indices`
  | .slc .none .none .none :: xs, y :: ys, acc => mergeLoop guard ndim xs ys (acc ++ [y])
  | .slc _ _ _ :: _, _ :: _, _ => none                  -- a partial slice: do not merge
  | .idx i :: xs, ys, acc => mergeLoop guard ndim xs ys (acc ++ [.idx i])
  | x :: xs, ys, acc => if guard then none else mergeLoop guard ndim xs ys (acc ++ [x])

/-- `merged_indices`: `none` = "evaluate the two subscripts one after the other". -/
def mergedIndices (guard : Bool) (ndim : Nat) (x y : List Item) : Option (List Item) :=
  if y.isEmpty then none else mergeLoop guard ndim x y []

def dimsOfView (v : SpecView) : List Dim :=
  List.zipWith (fun n s => (⟨n, s, -1⟩ : Dim)) v.shape v.strides

/-- The meaning of `view[x][y]`: NumPy applies `x`, then `y` to the result. -/
def chainSpec (dims : List Dim) (x y : List Item) : Res SpecView :=
  match specGetitem dims (.tuple x) with
  | .err e => .err e
  | .ok v1 =>
    match specGetitem (dimsOfView v1) (.tuple y) with
    | .err e => .err e
    | .ok v2 => .ok ⟨v2.shape, v2.strides, v1.offset + v2.offset⟩

/-- What the compiler generates: the merged subscript if the merge applies, else the chain. -/
def compiledChain (guard : Bool) (dims : List Dim) (x y : List Item) : Res SpecView :=
  match specExpand x dims.length with
  | .err e => .err e
  | .ok xe =>
    match mergedIndices guard dims.length xe y with
    | some m => specGetitem dims (.tuple m)
    | none => chainSpec dims x y

end CyVerif.C16

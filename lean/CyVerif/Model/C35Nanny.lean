import CyVerif.Model.C35
/-!
# C35 — model of `Cython/Runtime/refnanny.pyx` (`Context`) and of the event
stream a generated function sends to it

`Ctx.refs` is the dict `id ↦ (count, [lineno])` in insertion order, `errors`
the list of messages.  Objects are numbers; `none` is a NULL pointer.
`NEv` are the calls a function makes through the `__Pyx_RefNanny` table
(`ModuleSetupCode.c`), plus `acquire o`: a callee returned a new reference to
`o` (refcount +1, invisible to the nanny).  `RS.rc` is the net refcount change
of every object.
-/
namespace CyVerif.C35

inductive Err where
  | nullArg (line : Nat)
  | tooMany (line : Nat) (acquired : List Nat)
  | leaked (entries : List (Nat × List Nat))
  deriving DecidableEq, Repr

structure Ctx where
  refs : List (Nat × (Nat × List Nat))
  errors : List Err
  deriving Repr

def Ctx.init : Ctx := ⟨[], []⟩

/-- `Context.regref(obj, lineno, is_null)` -/
def Ctx.regref (c : Ctx) (p : Option Nat) (line : Nat) : Ctx :=
  match p with
  | none => { c with errors := c.errors ++ [.nullArg line] }
  | some o =>
    match aget c.refs o with
    | none => { c with refs := aset c.refs o (1, [line]) }
    | some (cnt, ls) => { c with refs := aset c.refs o (cnt + 1, ls ++ [line]) }

/-- `Context.delref(obj, lineno, is_null)`: new context and "ok to decref" -/
def Ctx.delref (c : Ctx) (p : Option Nat) (line : Nat) : Ctx × Bool :=
  match p with
  | none => ({ c with errors := c.errors ++ [.nullArg line] }, false)
  | some o =>
    match aget c.refs o with
    | none => ({ c with errors := c.errors ++ [.tooMany line []] }, false)
    | some (cnt, ls) =>
      if cnt = 0 then ({ c with errors := c.errors ++ [.tooMany line ls] }, false)
      else if cnt = 1 then ({ c with refs := c.refs.filter (fun e => e.1 != o) }, true)
      else ({ c with refs := aset c.refs o (cnt - 1, ls) }, true)

/-- `Context.end()`: the error list that is printed (`[]` = returns `None`) -/
def Ctx.finish (c : Ctx) : List Err :=
  if c.refs.isEmpty then c.errors
  else c.errors ++ [.leaked (c.refs.map (fun e => e.2))]

/-- calls through the `__Pyx_RefNanny` table; the `X` macros skip NULL before calling -/
inductive NEv where
  | acquire (o : Nat)
  | gotref (p : Option Nat) (line : Nat)
  | giveref (p : Option Nat) (line : Nat)
  | incref (p : Option Nat) (line : Nat)
  | decref (p : Option Nat) (line : Nat)
  | xgotref (p : Option Nat) (line : Nat)
  | xgiveref (p : Option Nat) (line : Nat)
  | xincref (p : Option Nat) (line : Nat)
  | xdecref (p : Option Nat) (line : Nat)
  deriving DecidableEq, Repr

structure RS where
  ctx : Ctx
  rc : Nat → Int

def RS.init : RS := ⟨Ctx.init, fun _ => 0⟩

def bump (rc : Nat → Int) (p : Option Nat) (d : Int) : Nat → Int :=
  match p with
  | none => rc
  | some o => fun x => if x = o then rc x + d else rc x

/-- one call: `INCREF` = `Py_XINCREF` + `GOTREF`; `DECREF` = `Py_XDECREF` only if `delref` allowed it -/
def RS.step (s : RS) : NEv → RS
  | .acquire o => { s with rc := bump s.rc (some o) 1 }
  | .gotref p l => { s with ctx := s.ctx.regref p l }
  | .giveref p l => { s with ctx := (s.ctx.delref p l).1 }
  | .incref p l => { ctx := s.ctx.regref p l, rc := bump s.rc p 1 }
  | .decref p l =>
    let r := s.ctx.delref p l
    { ctx := r.1, rc := if r.2 then bump s.rc p (-1) else s.rc }
  | .xgotref p l => if p.isNone then s else { s with ctx := s.ctx.regref p l }
  | .xgiveref p l => if p.isNone then s else { s with ctx := (s.ctx.delref p l).1 }
  | .xincref p l => if p.isNone then s else { ctx := s.ctx.regref p l, rc := bump s.rc p 1 }
  | .xdecref p l =>
    if p.isNone then s else
    let r := s.ctx.delref p l
    { ctx := r.1, rc := if r.2 then bump s.rc p (-1) else s.rc }

def RS.run (s : RS) (es : List NEv) : RS := es.foldl RS.step s

/-- what `FinishContext` prints for the whole event stream of one function call -/
def report (es : List NEv) : List Err := (RS.init.run es).ctx.finish

/-- net refcount change of object `o` -/
def delta (es : List NEv) (o : Nat) : Int := (RS.init.run es).rc o

end CyVerif.C35

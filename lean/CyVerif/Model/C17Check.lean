import CyVerif.Model.C17
/-! C17 — `__Pyx_BufFmt_CheckString`, `__Pyx_BufFmt_ParseNumber`, `__pyx_buffmt_parse_array`
over the characters of the format string (the terminating NUL is the end of the list). -/
namespace CyVerif.C17

def isDigit (c : Char) : Bool := '0' ≤ c ∧ c ≤ '9'

/-- `__Pyx_BufFmt_ParseNumber` after the first digit test: value and rest -/
def parseNum : Nat → List Char → Nat × List Char
  | acc, [] => (acc, [])
  | acc, c :: cs => if isDigit c then parseNum (acc * 10 + (c.toNat - 48)) cs else (acc, c :: cs)

theorem parseNum_length (acc : Nat) (cs : List Char) : (parseNum acc cs).2.length ≤ cs.length := by
  induction cs generalizing acc with
  | nil => simp [parseNum]
  | cons c cs ih =>
    unfold parseNum
    split
    · exact Nat.le_succ_of_le (ih _)
    · simp

/-- skip a `:name:`; `none` = no closing colon before the NUL (the C loop reads past the end) -/
def skipName : List Char → Option (List Char)
  | [] => none
  | c :: cs => if c = ':' then some cs else skipName cs

theorem skipName_length {cs r : List Char} (h : skipName cs = some r) : r.length < cs.length := by
  induction cs with
  | nil => simp [skipName] at h
  | cons c cs ih =>
    unfold skipName at h
    split at h
    · cases h; simp
    · exact Nat.lt_succ_of_lt (ih h)

/-- the number loop of `__pyx_buffmt_parse_array`; `i` = numbers seen -/
def parseDims (dims : List Nat) : Nat → Nat → List Char → R (Nat × List Char)
  | 0, _, _ => .fuel
  | _ + 1, i, [] => .ok (i, [])
  | fuel + 1, i, c :: cs =>
    if c = ')' then .ok (i, c :: cs)
    else if c ∈ [' ', '\x0c', '\r', '\n', '\t', '\x0b'] then .ub "hang"     -- `continue` without advancing
    else if ¬ isDigit c then .err "unknownchar"
    else
      let (n, rest) := parseNum 0 (c :: cs)
      if n ≥ 2 ^ 31 then .ub "intoverflow"
      else if i < dims.length ∧ n ≠ dims.getD i 0 then .err "dimsize"
      else match rest with
        | [] => .err "comma"
        | d :: rest' =>
          if d ≠ ',' ∧ d ≠ ')' then .err "comma"
          else parseDims dims fuel (i + 1) (if d = ',' then rest' else d :: rest')

/-- `__pyx_buffmt_parse_array`; input is the text after the '(' -/
def parseArray (guard : Bool) (st : St) (cs : List Char) : R (St × List Char) :=
  if st.newCount ≠ 1 then .err "repeatedarray"
  else (chunk guard st).bind fun st =>
    match st.slots with
    | [] => if guard then .err "mismatch" else .ub "nullderef-array"
    | s :: _ =>
      (parseDims s.arr (cs.length + 1) 0 cs).bind fun (i, rest) =>
        if i ≠ s.arr.length then .err "ndim"
        else match rest with
          | [] => .err "eof-array"
          | _ :: rest' => .ok ({ st with validArr := true, newCount := 1 }, rest')

/-- a new (non-pooled) type character -/
def newType (guard : Bool) (st : St) (c : Char) (gotZ : Bool) : R St :=
  (chunk guard st).bind fun st =>
    .ok { st with encCount := st.newCount, encPack := st.newPack, encType := c, isComplex := gotZ, newCount := 1 }

def typeChar (guard : Bool) (st : St) (c : Char) (gotZ : Bool) : R St :=
  if st.encType = c ∧ gotZ = st.isComplex ∧ st.encPack = st.newPack ∧ ¬ st.validArr then
    .ok { st with encCount := (st.encCount + st.newCount) % 2 ^ 64, newCount := 1 }
  else newType guard st c gotZ

def poolChars : List Char :=
  ['?', 'c', 'b', 'B', 'h', 'H', 'i', 'I', 'l', 'L', 'q', 'Q', 'f', 'd', 'g', 'O', 'p']

/-- `n` sequential runs of a parser on the same text (the `for` loop of the 'T' case) -/
def repeatRun (f : St → R (St × List Char)) : Nat → St → List Char → R (St × List Char)
  | 0, st, last => .ok (st, last)
  | n + 1, st, _ => (f st).bind fun (st, rest) => repeatRun f n st rest

/-- `__Pyx_BufFmt_CheckString`: the state and the returned pointer (rest of the text).  `gotZ` is the local
    variable `got_Z` of one invocation: set by a `Z` prefix, consumed by the type character that follows (it
    decides pooling and becomes `is_complex`), and reset to 0 by BOTH the pooling and the new-type branch;
    every recursive invocation (`T{`) starts with its own `got_Z = 0`. -/
def run (guard : Bool) : Nat → St → Bool → List Char → R (St × List Char)
  | 0, _, _, _ => .fuel
  | _ + 1, st, _, [] =>
    if st.encType ≠ NUL ∧ st.slots = [] then .err "mismatch"
    else (chunk guard st).bind fun st =>
      if st.slots ≠ [] then .err "mismatch" else .ok (st, [])
  | fuel + 1, st, gotZ, c :: cs =>
    if c = ' ' ∨ c = '\r' ∨ c = '\n' then run guard fuel st gotZ cs
    else if c = '<' then run guard fuel { st with newPack := '=' } gotZ cs
    else if c = '>' ∨ c = '!' then .err "bigendian"
    else if c = '=' ∨ c = '@' ∨ c = '^' then run guard fuel { st with newPack := c } gotZ cs
    else if c = 'T' then
      let structCount := st.newCount
      let saved := st.salign
      let st := { st with newCount := 1 }
      match cs with
      | '{' :: body =>
        (chunk guard st).bind fun st =>
          let st := { st with encType := NUL, encCount := 0, salign := 0 }
          if structCount > fuel then .fuel
          else (repeatRun (fun s => run guard fuel s false body) structCount st body).bind fun (st, rest) =>
            let st := if saved ≠ 0 then { st with salign := saved } else st
            if rest.length ≤ body.length then run guard fuel st gotZ rest else .fuel
      | _ => .err "expectedbrace"
    else if c = '}' then
      let alignment := st.salign
      (chunk guard st).bind fun st =>
        let st := { st with encType := NUL }
        let st := if alignment ≠ 0 ∧ st.off % alignment ≠ 0
                  then { st with off := st.off + (alignment - st.off % alignment) } else st
        .ok (st, cs)
    else if c = 'x' then
      (chunk guard st).bind fun st =>
        run guard fuel { st with off := st.off + st.newCount, newCount := 1, encCount := 0, encType := NUL,
                                 encPack := st.newPack } gotZ cs
    else if c = 'Z' then
      match cs with
      | d :: cs' =>
        if d = 'f' ∨ d = 'd' ∨ d = 'g' then (typeChar guard st d true).bind fun st => run guard fuel st false cs'
        else .err "unexpectedchar"
      | [] => .err "unexpectedchar"
    else if c ∈ poolChars then (typeChar guard st c gotZ).bind fun st => run guard fuel st false cs
    else if c = 's' then (newType guard st c gotZ).bind fun st => run guard fuel st false cs
    else if c = ':' then
      match skipName cs with
      | none => .ub "unterminated-name"
      | some rest => run guard fuel st gotZ rest
    else if c = '(' then (parseArray guard st cs).bind fun (st, rest) =>
      if rest.length ≤ cs.length then run guard fuel st gotZ rest else .fuel
    else if isDigit c then
      let (n, rest) := parseNum 0 (c :: cs)
      if n ≥ 2 ^ 31 then .ub "intoverflow" else run guard fuel { st with newCount := n } gotZ rest
    else .err "unknownchar"

/-- enough fuel for every text whose struct repeat counts are small -/
def fuelFor (cs : List Char) : Nat := 40 * (cs.length + 2)

/-- acquisition verdict of `__Pyx__GetBufferAndValidate` / `__Pyx_ValidateAndInit_memviewslice` after the
    ndim test: format check, then the item-size test -/
def acquire (guard : Bool) (slots : List Slot) (dtSize itemsize : Nat) (fmt : List Char) : R Unit :=
  (run guard (fuelFor fmt) (St.init slots) false fmt).bind fun _ =>
    if itemsize ≠ dtSize then .err "itemsize" else .ok ()

end CyVerif.C17

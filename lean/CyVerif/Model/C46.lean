import CyVerif.Model.Util
/-!
Model of `Cython/Build/Dependencies.py`: `DependencyTree.transitive_merge`,
`transitive_merge_helper` (instantiated as in `all_dependencies`: `merge =
set.union`), `newest_dependency`, and the rebuild decision of `cythonize`.

Files are natural numbers.  `g n` is `outgoing(n)` (= `cimported_files`), in
the iteration order of the real tuple (duplicates allowed); `E n` is
`extract(n)` (= `immediate_dependencies`).  A Python `set` is a `List Nat`
read up to membership (the driver prints it sorted without duplicates).

```
def transitive_merge(self, node, extract, merge):
    seen = self._transitive_cache.setdefault((extract, merge), {})     # shared across queries
    return self.transitive_merge_helper(node, extract, merge, seen, {}, self.cimported_files)[0]

def transitive_merge_helper(self, node, extract, merge, seen, stack, outgoing):
    if node in seen:
        return seen[node], None
    deps = extract(node)
    if node in stack:
        return deps, node
    try:
        stack[node] = len(stack)
        loop = None
        for next in outgoing(node):
            sub_deps, sub_loop = self.transitive_merge_helper(next, extract, merge, seen, stack, outgoing)
            if sub_loop is not None:
                if loop is not None and stack[loop] < stack[sub_loop]:
                    pass
                else:
                    loop = sub_loop
            deps = merge(deps, sub_deps)
        if loop == node:
            loop = None
        if loop is None:
            seen[node] = deps
        return deps, loop
    finally:
        del stack[node]
```
-/
namespace CyVerif.C46

/-- `seen`: a Python dict `node -> set`, newest binding first. -/
abbrev Cache := List (Nat × List Nat)

def lookup : Cache → Nat → Option (List Nat)
  | [], _ => none
  | (k, v) :: rest, n => if k = n then some v else lookup rest n

/-- `seen[node] = deps` -/
def insert (c : Cache) (n : Nat) (d : List Nat) : Cache := (n, d) :: c

/-- The `stack` dict.  Entries are added with value `len(stack)` and removed
in LIFO order (`finally: del stack[node]`), so the dict is a list (top first)
and `stack[m]` is the number of entries below `m`. -/
def pos : List Nat → Nat → Nat
  | [], _ => 0
  | n :: rest, m => if m = n then rest.length else pos rest m

/-- `set.union` -/
def union (a b : List Nat) : List Nat := a ++ b.filter (fun x => !a.contains x)

/-- Result of one helper call: `(deps, loop)` plus the updated `seen`, or the
`KeyError` that `stack[loop]` / `stack[sub_loop]` would raise, or the model's
fuel ran out (proved impossible for `fuel > |V|`). -/
inductive Out where
  | ok (deps : List Nat) (loop : Option Nat) (seen : Cache)
  | keyError
  | outOfFuel
  deriving DecidableEq, Repr

/-- The loop-head update inside the `for` loop; `none` = `KeyError`. -/
def mergeLoop (stack : List Nat) (loop subLoop : Option Nat) : Option (Option Nat) :=
  match subLoop with
  | none => some loop
  | some sl =>
    match loop with
    | none => some (some sl)          -- `loop is not None and …` short-circuits
    | some l =>
      if l ∈ stack ∧ sl ∈ stack then
        (if pos stack l < pos stack sl then some (some l) else some (some sl))
      else none

/-- The `for next in outgoing(node)` loop; `h` is the recursive call. -/
def foldKids (h : Nat → Cache → Out) (stack : List Nat) :
    List Nat → List Nat → Option Nat → Cache → Out
  | [], deps, loop, seen => .ok deps loop seen
  | c :: cs, deps, loop, seen =>
    match h c seen with
    | .ok sd sl seen' =>
      match mergeLoop stack loop sl with
      | some loop' => foldKids h stack cs (union deps sd) loop' seen'
      | none => .keyError
    | .keyError => .keyError
    | .outOfFuel => .outOfFuel

/-- `transitive_merge_helper(node, extract, set.union, seen, stack, outgoing)` -/
def helper (g E : Nat → List Nat) : Nat → Nat → Cache → List Nat → Out
  | 0, _, _, _ => .outOfFuel
  | fuel + 1, node, seen, stack =>
    match lookup seen node with
    | some d => .ok d none seen
    | none =>
      if node ∈ stack then .ok (E node) (some node) seen
      else
        match foldKids (fun c s => helper g E fuel c s (node :: stack)) (node :: stack)
                (g node) (E node) none seen with
        | .ok deps loop seen' =>
          let loop' := if loop = some node then none else loop
          .ok deps loop' (if loop' = none then insert seen' node deps else seen')
        | .keyError => .keyError
        | .outOfFuel => .outOfFuel

/-- `transitive_merge(node, …)`: one query on a tree whose cache is `seen`.
`N` bounds the files that have outgoing edges; fuel `N+1` always suffices. -/
def query (g E : Nat → List Nat) (N : Nat) (seen : Cache) (node : Nat) : Out :=
  helper g E (N + 1) node seen []

/-- A sequence of `all_dependencies` queries on ONE tree, starting from cache
`seen`; returns the answers and the final cache (`none` if any query failed). -/
def runQueries (g E : Nat → List Nat) (N : Nat) : Cache → List Nat → Option (List (List Nat) × Cache)
  | seen, [] => some ([], seen)
  | seen, q :: qs =>
    match query g E N seen q with
    | .ok deps _ seen' =>
      match runQueries g E N seen' qs with
      | some (as, s) => some (deps :: as, s)
      | none => none
    | _ => none

/-! ### rebuild decision of `cythonize`

```
if Utils.file_generated_by_this_cython(c_file): c_timestamp = os.path.getmtime(c_file)
else:                                           c_timestamp = -1
if c_timestamp < deps.timestamp(source):
    dep_timestamp, dep = deps.timestamp(source), source
else:
    dep_timestamp, dep = deps.newest_dependency(source)     # max over all_dependencies(source)
if force or c_timestamp < dep_timestamp:  -> to_compile
```
Timestamps are integers (only their order matters); `cts = none` = C file
missing or not generated by this Cython. -/

/-- `max([...])` of a non-empty list; `none` = `ValueError` (empty). -/
def maxList : List Int → Option Int
  | [] => none
  | x :: xs => match maxList xs with
    | none => some x
    | some m => some (if x < m then m else x)

/-- `some true` = regenerate, `some false` = keep, `none` = `ValueError` from `max([])`. -/
def rebuild (force : Bool) (cts : Option Int) (srcT : Int) (depTs : List Int) : Option Bool :=
  let c : Int := match cts with | some t => t | none => -1
  if c < srcT then some true        -- `force or c < srcT` is true either way
  else match maxList depTs with
    | none => none
    | some m => some (force || decide (c < m))

/-- The whole decision for one module: query the tree, take timestamps. -/
def decideModule (g E : Nat → List Nat) (N : Nat) (seen : Cache) (ts : Nat → Int)
    (src : Nat) (cts : Option Int) (force : Bool) : Option Bool :=
  let c : Int := match cts with | some t => t | none => -1
  if c < ts src then some true
  else match query g E N seen src with
    | .ok deps _ _ => rebuild force cts (ts src) (deps.map ts)
    | _ => none

/-! ### line protocol -/

def canon (l : List Nat) : List Nat := (l.mergeSort (· ≤ ·)).eraseDups

/-- `:1,2;0;;3` → `[[1,2],[0],[],[3]]`; `:` → `[[]]`; `-` → `[]` (the leading `:` keeps the token non-empty). -/
def parseTable (s : String) : Option (List (List Nat)) :=
  if s == "-" then some [] else
  match s.toList with
  | ':' :: rest =>
    ((String.ofList rest).splitOn ";").mapM fun row =>
      if row == "" then some [] else (row.splitOn ",").mapM parseNat?
  | _ => none

def parseNats (s : String) : Option (List Nat) :=
  if s == "-" then some [] else (s.splitOn ",").mapM parseNat?

def parseInts (s : String) : Option (List Int) :=
  if s == "-" then some [] else (s.splitOn ",").mapM parseInt?

def tableFn (t : List (List Nat)) (n : Nat) : List Nat := t.getD n []

def showSet (l : List Nat) : String := natsToStr (canon l)

def showCache (c : Cache) : String :=
  let keys := canon (c.map (·.1))
  ";".intercalate (keys.map fun k => s!"{k}:{showSet ((lookup c k).getD [])}")

def showOptBool : Option Bool → String
  | some true => "ok 1"
  | some false => "ok 0"
  | none => "err ValueError"

def parseBool? (s : String) : Option Bool :=
  if s == "1" then some true else if s == "0" then some false else none

def parseCts? (s : String) : Option (Option Int) :=
  if s == "none" then some none else (parseInt? s).map some

def handle : List String → String
  | ["q", gs, es, qs] =>
    match parseTable gs, parseTable es, parseNats qs with
    | some g, some e, some qs =>
      -- run query by query so that the first failing query is reported
      let rec go (seen : Cache) (qs : List Nat) (acc : List String) : String :=
        match qs with
        | [] => "ok " ++ " ".intercalate acc.reverse ++ " seen=" ++ showCache seen
        | q :: rest =>
          match query (tableFn g) (tableFn e) g.length seen q with
          | .ok deps _ seen' => go seen' rest (showSet deps :: acc)
          | .keyError => "err KeyError"
          | .outOfFuel => "err OutOfFuel"
      go [] qs []
    | _, _, _ => "bad-op"
  | ["rb", f, c, s, ds] =>
    match parseBool? f, parseCts? c, parseInt? s, parseInts ds with
    | some f, some c, some s, some ds => showOptBool (rebuild f c s ds)
    | _, _, _, _ => "bad-op"
  | ["dec", gs, es, tss, src, c, f] =>
    match parseTable gs, parseTable es, parseInts tss, parseNat? src, parseCts? c, parseBool? f with
    | some g, some e, some ts, some src, some c, some f =>
      -- every file id that occurs must have a timestamp (no silent default)
      if (src :: (g.flatten ++ e.flatten)).all (· < ts.length) ∧ g.length ≤ ts.length then
        showOptBool (decideModule (tableFn g) (tableFn e) g.length [] (fun n => ts.getD n 0) src c f)
      else "bad-op"
    | _, _, _, _, _, _ => "bad-op"
  | _ => "bad-op"

end CyVerif.C46

import CyVerif.Model.Util
import CyVerif.Model.C49Spec
/-!
# C49 — model of `Cython/StringIOTree.py` as a heap of nodes

A `StringIOTree` object is a heap cell `Node` (its `stream` content, the list
of heap addresses in `prepended_children`, its `markers` list).  A user-visible
buffer handle is an index into `St.handles` (creation order) holding the heap
address of the object.  `commit` allocates an anonymous cell that takes over
the stream and the markers, exactly as the Python code does.  Nothing in the
model enforces tree-ness: inserting a tree twice duplicates its output,
inserting a tree into itself makes the traversals run out of stack
(`RecursionError`) — as in the real class.
-/
namespace CyVerif.C49

structure Node where
  stream : String
  children : List Nat
  markers : List Nat
  deriving Repr, DecidableEq

abbrev Heap := List Node

structure St where
  heap : Heap
  handles : List Nat
  deriving Repr

def St.init : St := ⟨[], []⟩

def emptyNode : Node := ⟨"", [], []⟩

/-- `self.markers.extend(ms); self.write(s)` (what `CCodeWriter._write_lines` does) -/
def writeH (H : Heap) (b : Nat) (s : String) (ms : List Nat) : Heap :=
  match H[b]? with
  | none => H
  | some n => H.set b { n with stream := n.stream ++ s, markers := n.markers ++ ms }

/-- `commit`: if the stream is non-empty, move stream and markers into a new
anonymous child appended to `prepended_children`. -/
def commitH (H : Heap) (b : Nat) : Heap :=
  match H[b]? with
  | none => H
  | some n =>
    if n.stream = "" then H
    else (H.set b ⟨"", n.children ++ [H.length], []⟩) ++ [⟨n.stream, [], n.markers⟩]

/-- `self.prepended_children.append(c)` -/
def addChildH (H : Heap) (b c : Nat) : Heap :=
  match H[b]? with
  | none => H
  | some n => H.set b { n with children := n.children ++ [c] }

/-- One operation on the concrete state; `none` = unknown handle. -/
def St.step (σ : St) : Op → Option St
  | .new => some ⟨σ.heap ++ [emptyNode], σ.handles ++ [σ.heap.length]⟩
  | .write b s ms =>
    match σ.handles[b]? with
    | none => none
    | some ib => some { σ with heap := writeH σ.heap ib s ms }
  | .ip b =>
    match σ.handles[b]? with
    | none => none
    | some ib =>
      let H1 := commitH σ.heap ib
      some ⟨addChildH H1 ib H1.length ++ [emptyNode], σ.handles ++ [H1.length]⟩
  | .insert b t =>
    match σ.handles[b]?, σ.handles[t]? with
    | some ib, some it => some { σ with heap := addChildH (commitH σ.heap ib) ib it }
    | _, _ => none
  | .commit b =>
    match σ.handles[b]? with
    | none => none
    | some ib => some { σ with heap := commitH σ.heap ib }
  | .reset b =>
    match σ.handles[b]? with
    | none => none
    | some ib => some { σ with heap := σ.heap.set ib emptyNode }

def St.run (σ : St) : List Op → Option St
  | [] => some σ
  | o :: os => match σ.step o with
    | none => none
    | some σ' => σ'.run os

/-- results of the children traversals, concatenated; `none` if any fails -/
def seqOpt {α} (g : Nat → Option (List α)) : List Nat → Option (List α)
  | [] => some []
  | c :: cs =>
    match g c, seqOpt g cs with
    | some x, some y => some (x ++ y)
    | _, _ => none

/-- `_collect_in` / `copyto`: the non-empty stream contents in traversal
order.  Fuel stands for the Python stack: `none` = `RecursionError`. -/
def chunks (H : Heap) : Nat → Nat → Option (List String)
  | 0, _ => none
  | f + 1, i =>
    match H[i]? with
    | none => none
    | some n =>
      match seqOpt (chunks H f) n.children with
      | none => none
      | some cs => some (cs ++ (if n.stream = "" then [] else [n.stream]))

/-- `allmarkers` -/
def allm (H : Heap) : Nat → Nat → Option (List Nat)
  | 0, _ => none
  | f + 1, i =>
    match H[i]? with
    | none => none
    | some n =>
      match seqOpt (allm H f) n.children with
      | none => none
      | some ms => some (ms ++ n.markers)

/-- `empty`: a non-empty stream answers `False` without visiting children;
otherwise ALL children are visited (list comprehension) and `all` is taken. -/
def emp (H : Heap) : Nat → Nat → Option (List Bool)
  | 0, _ => none
  | f + 1, i =>
    match H[i]? with
    | none => none
    | some n =>
      if n.stream ≠ "" then some [false]
      else match seqOpt (emp H f) n.children with
        | none => none
        | some bs => some [bs.all id]

def joinS : List String → String
  | [] => ""
  | s :: r => s ++ joinS r

/-- enough fuel for every acyclic heap (proved in `Props/C49.lean`) -/
def St.fuel (σ : St) : Nat := σ.heap.length + 1

def St.getvalue (σ : St) (b : Nat) : Option (Res String) :=
  match σ.handles[b]? with
  | none => none
  | some i => match chunks σ.heap σ.fuel i with
    | none => some (.err "RecursionError")
    | some cs => some (.ok (joinS cs))

def St.copyto (σ : St) (b : Nat) : Option (Res (List String)) :=
  match σ.handles[b]? with
  | none => none
  | some i => match chunks σ.heap σ.fuel i with
    | none => some (.err "RecursionError")
    | some cs => some (.ok cs)

def St.allmarkers (σ : St) (b : Nat) : Option (Res (List Nat)) :=
  match σ.handles[b]? with
  | none => none
  | some i => match allm σ.heap σ.fuel i with
    | none => some (.err "RecursionError")
    | some ms => some (.ok ms)

def St.empty (σ : St) (b : Nat) : Option (Res Bool) :=
  match σ.handles[b]? with
  | none => none
  | some i => match emp σ.heap σ.fuel i with
    | none => some (.err "RecursionError")
    | some bs => some (.ok (bs.all id))

/-! ## line protocol -/

def strOfBytes (bs : List Nat) : String := String.ofList (bs.map Char.ofNat)
def hexOfStr (s : String) : String := bytesToHex (s.toList.map Char.toNat)

/-- number of newline characters (what `s.count('\n')` returns) -/
def nlCount (s : String) : Nat := (s.toList.filter (· = '\n')).length

def parseNats (s : String) : Option (List Nat) :=
  if s = "-" then some [] else (s.splitOn ",").mapM parseNat?

/-- `n` | `w:b:hex:m,m,…` | `p:b:hex:pos` (CCodeWriter.write: one marker per newline) |
`i:b` | `s:b:t` | `c:b` | `r:b` -/
def parseOp (tok : String) : Option Op :=
  match tok.splitOn ":" with
  | ["n"] => some .new
  | ["w", b, h, ms] =>
    match parseNat? b, parseHexBytes h, parseNats ms with
    | some b, some bs, some ms => some (.write b (strOfBytes bs) ms)
    | _, _, _ => none
  | ["p", b, h, pos] =>
    match parseNat? b, parseHexBytes h, parseNat? pos with
    | some b, some bs, some pos =>
      let s := strOfBytes bs
      some (.write b s (List.replicate (nlCount s) pos))
    | _, _, _ => none
  | ["i", b] => (parseNat? b).map .ip
  | ["s", b, t] =>
    match parseNat? b, parseNat? t with
    | some b, some t => some (.insert b t)
    | _, _ => none
  | ["c", b] => (parseNat? b).map .commit
  | ["r", b] => (parseNat? b).map .reset
  | _ => none

def showRes {α} (f : α → String) : Option (Res α) → String
  | none => "?"
  | some (.ok v) => f v
  | some (.err e) => "!" ++ e

def showBool (b : Bool) : String := if b then "T" else "F"

def showChunks (cs : List String) : String :=
  if cs.isEmpty then "." else ",".intercalate (cs.map hexOfStr)

def St.observe (σ : St) : String :=
  " ".intercalate ((List.range σ.handles.length).map fun b =>
    showRes hexOfStr (σ.getvalue b) ++ "|" ++ showRes natsToStr (σ.allmarkers b) ++ "|" ++
    showRes showBool (σ.empty b) ++ "|" ++ showRes showChunks (σ.copyto b))

def Spec.observe (sp : Spec) : String :=
  " ".intercalate ((List.range sp.n).map fun b =>
    hexOfStr (sp.getvalue b) ++ "|" ++ natsToStr (sp.allmarkers b) ++ "|" ++ showBool (sp.empty b))

def handle : List String → String
  | "run" :: toks =>
    match toks.mapM parseOp with
    | none => "bad-op"
    | some ops =>
      match St.init.run ops with
      | none => "bad-op"
      | some σ => "ok " ++ σ.observe
  | "spec" :: toks =>
    match toks.mapM parseOp with
    | none => "bad-op"
    | some ops =>
      match Spec.init.run ops with
      | none => "guard"
      | some sp => "ok " ++ sp.observe
  | _ => "bad-op"

end CyVerif.C49

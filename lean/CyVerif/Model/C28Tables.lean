import CyVerif.Model.C28Cmp
/-!
# C28 — slot tables

`cpythonBinops`: the binary-operator rows of `slotdefs[]` in CPython 3.12 `Objects/typeobject.c`
(`BINSLOT`/`RBINSLOT`/`IBSLOT`/`NBSLOT` entries): C slot, `__op__`, `__rop__`, whether the slot is a
`ternaryfunc`, and the in-place slot + method (none for `divmod`).
`pyToTable`: `functools._convert` (Lib/functools.py): how `total_ordering` derives `target` from `root`.

The rows of `Cython/Compiler/TypeSlots.py :: SlotTable.PyNumberMethods` and the dict
`ModuleNode.TOTAL_ORDERING` are re-extracted from the current source on every run and checked against
these tables by the kernel (`binopsOK`, `cmpNamesOK`, `toTableOK`).
-/
namespace CyVerif.C28

structure BinRow where
  slot : String
  left : String
  right : String
  ternary : Bool
  islot : Option String
  imeth : Option String
  deriving DecidableEq, Repr

def cpythonBinops : List BinRow := [
  ⟨"nb_add", "__add__", "__radd__", false, some "nb_inplace_add", some "__iadd__"⟩,
  ⟨"nb_subtract", "__sub__", "__rsub__", false, some "nb_inplace_subtract", some "__isub__"⟩,
  ⟨"nb_multiply", "__mul__", "__rmul__", false, some "nb_inplace_multiply", some "__imul__"⟩,
  ⟨"nb_remainder", "__mod__", "__rmod__", false, some "nb_inplace_remainder", some "__imod__"⟩,
  ⟨"nb_divmod", "__divmod__", "__rdivmod__", false, none, none⟩,
  ⟨"nb_power", "__pow__", "__rpow__", true, some "nb_inplace_power", some "__ipow__"⟩,
  ⟨"nb_lshift", "__lshift__", "__rlshift__", false, some "nb_inplace_lshift", some "__ilshift__"⟩,
  ⟨"nb_rshift", "__rshift__", "__rrshift__", false, some "nb_inplace_rshift", some "__irshift__"⟩,
  ⟨"nb_and", "__and__", "__rand__", false, some "nb_inplace_and", some "__iand__"⟩,
  ⟨"nb_xor", "__xor__", "__rxor__", false, some "nb_inplace_xor", some "__ixor__"⟩,
  ⟨"nb_or", "__or__", "__ror__", false, some "nb_inplace_or", some "__ior__"⟩,
  ⟨"nb_floor_divide", "__floordiv__", "__rfloordiv__", false, some "nb_inplace_floor_divide", some "__ifloordiv__"⟩,
  ⟨"nb_true_divide", "__truediv__", "__rtruediv__", false, some "nb_inplace_true_divide", some "__itruediv__"⟩,
  ⟨"nb_matrix_multiply", "__matmul__", "__rmatmul__", false, some "nb_inplace_matrix_multiply", some "__imatmul__"⟩]

/-- the extracted Cython rows are exactly CPython's (as a set; order is irrelevant for dispatch) -/
def binopsOK (cur : List BinRow) : Bool :=
  cur.length == cpythonBinops.length && cpythonBinops.all (fun r => cur.contains r) && cur.all (fun r => cpythonBinops.contains r)

/-- `TypeSlots.richcmp_special_methods` in the order the model's `Cmp` enumerates them -/
def cmpNames : List String := ["__eq__", "__ne__", "__lt__", "__gt__", "__le__", "__ge__"]

def cmpNamesOK (cur : List String) : Bool := cur == cmpNames

def cmpOfName (s : String) : Option Cmp :=
  if s == "__eq__" then some .eq else if s == "__ne__" then some .ne else if s == "__lt__" then some .lt
  else if s == "__gt__" then some .gt else if s == "__le__" then some .le else if s == "__ge__" then some .ge else none

/-- one entry of `ModuleNode.TOTAL_ORDERING`: ((from, to), (invert_comp, op, invert_equals)) with
`op` = "&&" | "||" | "" and `invert_equals` = none for Python's `None` -/
structure ToEntry where
  src : String
  tgt : String
  inv : Bool
  op : String
  invEq : Option Bool
  deriving DecidableEq, Repr

def toEntryVal (e : ToEntry) : Option (Bool × Option (Bool × Bool)) :=
  match e.op, e.invEq with
  | "&&", some q => some (e.inv, some (true, q))
  | "||", some q => some (e.inv, some (false, q))
  | "", none => some (e.inv, none)
  | _, _ => none

def allCmp : List Cmp := [.eq, .ne, .lt, .gt, .le, .ge]

/-- the extracted dict defines the same partial function as the model's `toTable` -/
def toTableOK (cur : List ToEntry) : Bool :=
  cur.all (fun e =>
    match cmpOfName e.src, cmpOfName e.tgt with
    | some s, some t => toEntryVal e != none && toTable s t == toEntryVal e
    | _, _ => false)
  && allCmp.all (fun s => allCmp.all fun t =>
      (toTable s t).isSome == cur.any (fun e => cmpOfName e.src == some s && cmpOfName e.tgt == some t))

/-- `functools._convert`: `_gt_from_lt` = `not op_result and self != other`, … in the same encoding
(invert the ordering result?, none = no equality part | some (isAnd, use `!=` instead of `==`)) -/
def pyToTable : Cmp → Cmp → Option (Bool × Option (Bool × Bool))
  | .lt, .gt => some (true, some (true, true))     -- not (a < b) and a != b
  | .lt, .le => some (false, some (false, false))  -- (a < b) or a == b
  | .lt, .ge => some (true, none)                  -- not (a < b)
  | .le, .ge => some (true, some (false, false))   -- not (a <= b) or a == b
  | .le, .lt => some (false, some (true, true))    -- (a <= b) and a != b
  | .le, .gt => some (true, none)                  -- not (a <= b)
  | .gt, .lt => some (true, some (true, true))     -- not (a > b) and a != b
  | .gt, .ge => some (false, some (false, false))  -- (a > b) or a == b
  | .gt, .le => some (true, none)                  -- not (a > b)
  | .ge, .le => some (true, some (false, false))   -- not (a >= b) or a == b
  | .ge, .gt => some (false, some (true, true))    -- (a >= b) and a != b
  | .ge, .lt => some (true, none)                  -- not (a >= b)
  | _, _ => none

end CyVerif.C28

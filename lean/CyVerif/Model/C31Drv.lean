import CyVerif.Model.C31Match
/-!
C31 — line protocol.  `ref <tab> <stmt> <subject>` / `cy <4 variant bits> <tab> <stmt> <subject>`.
Prefix token grammar (all numbers decimal):
  lit   ::= i <int> | b <0|1> | n | s <k>
  val   ::= lit | y <k> | e <tag> <int> | L <n> val* | T <n> val* | Q <n> val*
          | D <n> (lit val)* | M <n> (lit val)* | O <cls> <n> (<attr> (v val | r))*
          | DS <n> (lit val)* | DG <n> (lit val)* <m> (lit val)* | U <kind> <n> val* | z <kind> <k>
  key   ::= l lit | k <idx>
  cls   ::= u <idx> | int | bool | str | list | tuple | dict | nontype
  pat   ::= l lit | k <idx> | c <name> | w | S <np> pat* <star:-1|-2|name> <nq> pat*
          | M <n> (key pat)* <rest:-1|name> | C cls <np> pat* <nk> (<attr> pat)* | O <n> pat* | A pat <name>
  tab   ::= <ncls> (<nsup> <sup>* (-1 | -2 | <n> (<name>|-1)*))* <nconst> lit*
  stmt  ::= <ncases> (pat <guard:-1|0|1>)*
-/
namespace CyVerif.C31

abbrev P (α : Type) := List String → Option (α × List String)

def pNat : P Nat | t :: r => t.toNat?.map (·, r) | [] => none
def pInt : P Int | t :: r => t.toInt?.map (·, r) | [] => none

def pLitTag (t : String) : P Lit := fun r =>
  match t with
  | "i" => (pInt r).map fun (n, r) => (.int n, r)
  | "b" => (pNat r).map fun (n, r) => (.bool (n != 0), r)
  | "n" => some (.pynone, r)
  | "s" => (pNat r).map fun (n, r) => (.str n, r)
  | _ => none
def pLit : P Lit | t :: r => pLitTag t r | [] => none

def pMany {α} (p : P α) : Nat → P (List α)
  | 0, r => some ([], r)
  | n + 1, r => do
    let (x, r) ← p r
    let (xs, r) ← pMany p n r
    pure (x :: xs, r)

def pVal : Nat → P Val
  | 0, _ => none
  | fuel + 1, toks =>
    match toks with
    | [] => none
    | t :: r =>
      match t with
      | "y" => (pNat r).map fun (n, r) => (.bytes n, r)
      | "e" => do let (tag, r) ← pNat r; let (n, r) ← pInt r; pure (.eobj tag n, r)
      | "L" => do let (n, r) ← pNat r; let (xs, r) ← pMany (pVal fuel) n r; pure (.list xs, r)
      | "T" => do let (n, r) ← pNat r; let (xs, r) ← pMany (pVal fuel) n r; pure (.tuple xs, r)
      | "Q" => do let (n, r) ← pNat r; let (xs, r) ← pMany (pVal fuel) n r; pure (.cseq xs, r)
      | "D" => do
        let (n, r) ← pNat r
        let (xs, r) ← pMany (fun r => do let (k, r) ← pLit r; let (v, r) ← pVal fuel r; pure ((k, v), r)) n r
        pure (.dict xs, r)
      | "M" => do
        let (n, r) ← pNat r
        let (xs, r) ← pMany (fun r => do let (k, r) ← pLit r; let (v, r) ← pVal fuel r; pure ((k, v), r)) n r
        pure (.lmap xs, r)
      | "DS" => do
        let (n, r) ← pNat r
        let (xs, r) ← pMany (fun r => do let (k, r) ← pLit r; let (v, r) ← pVal fuel r; pure ((k, v), r)) n r
        pure (.dsub xs, r)
      | "DG" => do
        let (n, r) ← pNat r
        let (xs, r) ← pMany (fun r => do let (k, r) ← pLit r; let (v, r) ← pVal fuel r; pure ((k, v), r)) n r
        let (m, r) ← pNat r
        let (ys, r) ← pMany (fun r => do let (k, r) ← pLit r; let (v, r) ← pVal fuel r; pure ((k, v), r)) m r
        pure (.dget xs ys, r)
      | "U" => do
        let (kind, r) ← pNat r
        let (n, r) ← pNat r
        let (xs, r) ← pMany (pVal fuel) n r
        pure (.useq kind xs, r)
      | "z" => do let (kind, r) ← pNat r; let (k, r) ← pNat r; pure (.ostr kind k, r)
      | "O" => do
        let (c, r) ← pNat r
        let (n, r) ← pNat r
        let (xs, r) ← pMany (fun r => do
            let (a, r) ← pNat r
            match r with
            | "r" :: r => pure ((a, (none : Option Val)), r)
            | "v" :: r => do let (v, r) ← pVal fuel r; pure ((a, some v), r)
            | _ => none) n r
        pure (.obj c xs, r)
      | _ => (pLitTag t r).map fun (l, r) => (.lit l, r)

def pKey : P Key
  | "l" :: r => (pLit r).map fun (l, r) => (.lit l, r)
  | "k" :: r => (pNat r).map fun (n, r) => (.const n, r)
  | _ => none

def pCls : P Cls
  | "u" :: r => (pNat r).map fun (n, r) => (.user n, r)
  | "int" :: r => some (.bint, r) | "bool" :: r => some (.bbool, r) | "str" :: r => some (.bstr, r)
  | "list" :: r => some (.blist, r) | "tuple" :: r => some (.btuple, r) | "dict" :: r => some (.bdict, r)
  | "nontype" :: r => some (.nontype, r)
  | _ => none

def pOptName : P (Option Nat) := fun r => do
  let (n, r) ← pInt r
  pure ((if n < 0 then none else some n.toNat), r)

def pPat : Nat → P Pat
  | 0, _ => none
  | fuel + 1, toks =>
    match toks with
    | "l" :: r => (pLit r).map fun (l, r) => (.lit l, r)
    | "k" :: r => (pNat r).map fun (n, r) => (.const n, r)
    | "c" :: r => (pNat r).map fun (n, r) => (.cap n, r)
    | "w" :: r => some (.wild, r)
    | "S" :: r => do
      let (np, r) ← pNat r
      let (ps, r) ← pMany (pPat fuel) np r
      let (st, r) ← pInt r
      let (nq, r) ← pNat r
      let (qs, r) ← pMany (pPat fuel) nq r
      let star : Option (Option Nat) :=
        if st == -1 then none else if st < 0 then some none else some (some st.toNat)
      pure (.seq ps star qs, r)
    | "M" :: r => do
      let (n, r) ← pNat r
      let (es, r) ← pMany (fun r => do let (k, r) ← pKey r; let (p, r) ← pPat fuel r; pure ((k, p), r)) n r
      let (rest, r) ← pOptName r
      pure (.map (es.map (·.1)) (es.map (·.2)) rest, r)
    | "C" :: r => do
      let (c, r) ← pCls r
      let (np, r) ← pNat r
      let (ps, r) ← pMany (pPat fuel) np r
      let (nk, r) ← pNat r
      let (es, r) ← pMany (fun r => do let (a, r) ← pNat r; let (p, r) ← pPat fuel r; pure ((a, p), r)) nk r
      pure (.cls c ps (es.map (·.1)) (es.map (·.2)), r)
    | "O" :: r => do
      let (n, r) ← pNat r
      let (ps, r) ← pMany (pPat fuel) n r
      pure (.or ps, r)
    | "A" :: r => do
      let (p, r) ← pPat fuel r
      let (n, r) ← pNat r
      pure (.as p n, r)
    | _ => none

def pMArgs : P MArgs := fun r => do
  let (n, r) ← pInt r
  if n == -1 then pure (.absent, r)
  else if n < 0 then pure (.nontuple, r)
  else
    let (xs, r) ← pMany pOptName n.toNat r
    pure (.tuple xs, r)

def pTab : P Tab := fun r => do
  let (nc, r) ← pNat r
  let (cs, r) ← pMany (fun r => do
      let (ns, r) ← pNat r
      let (sup, r) ← pMany pNat ns r
      let (ma, r) ← pMArgs r
      pure (({ supers := sup, margs := ma } : CInfo), r)) nc r
  let (nk, r) ← pNat r
  let (ks, r) ← pMany pLit nk r
  pure ({ classes := cs, consts := ks }, r)

def pStmt (fuel : Nat) : P (List Case) := fun r => do
  let (n, r) ← pNat r
  pMany (fun r => do
    let (p, r) ← pPat fuel r
    let (g, r) ← pInt r
    pure (({ pat := p, guard := if g < 0 then none else some (g != 0) } : Case), r)) n r

end CyVerif.C31

import CyVerif.Model.C16
/-!
Reference semantics of basic indexing of an N-dimensional strided buffer
(NumPy basic indexing / `memoryview` for one dimension), built only from the
`PySlice` reference model.  This is the right-hand side of the C16 theorems;
the harness ties it to NumPy on every run (`C16 spec …`).
-/
namespace CyVerif.C16
open PySlice

def _root_.CyVerif.Res.map {α β} (f : α → β) : Res α → Res β
  | .ok v => .ok (f v)
  | .err e => .err e

/-- The Python-level slice fields behind C-level `SliceArgs`. -/
def SliceArgs.pyStart (a : SliceArgs) : Option Int := if a.haveStart then some a.start else none
def SliceArgs.pyStop (a : SliceArgs) : Option Int := if a.haveStop then some a.stop else none
def SliceArgs.pyStep (a : SliceArgs) : Option Int := if a.haveStep then some a.step else none

/-- `(start', step, length)` of `slice(a.start, a.stop, a.step).indices(shape)`. -/
def specTriple (shape : Int) (a : SliceArgs) : Res (Int × Int × Int) :=
  (PySlice.indices shape a.pyStart a.pyStop a.pyStep).map fun (adj, st) => (adj.start, st, adj.len)

def DimSlice.triple (b : DimSlice) : Int × Int × Int := (b.start, b.step, b.newShape)

/-- What one index item selects. -/
inductive Sel where
  | point (j : Int)                   -- one element (dimension disappears)
  | range (adj : Adj) (step : Int)    -- `adj.len` elements `adj.start + k*step`
  | newaxis                           -- `None`: a new dimension of extent 1
  deriving DecidableEq, Repr

/-- Python semantics of one item on a dimension of extent `n`. -/
def specSel (n : Int) : Item → Res Sel
  | .idx i =>
    match PySlice.index n i with
    | .ok j => .ok (.point j)
    | .err e => .err e
  | .slc s e st =>
    match PySlice.indices n s e st with
    | .ok (adj, step) => .ok (.range adj step)
    | .err e => .err e
  | _ => .err "TypeError"

/-- One item per dimension (`None` consumes no dimension); the first error
from the left wins; a count mismatch is NumPy's "too many indices". -/
def specSels : List Dim → List Item → Res (List (Dim × Sel))
  | [], [] => .ok []
  | dims, .none :: rest =>
    match specSels dims rest with
    | .ok l => .ok ((⟨1, 0, -1⟩, .newaxis) :: l)
    | .err e => .err e
  | src :: dims, it :: rest =>
    match specSel src.shape it with
    | .err e => .err e
    | .ok s =>
      match specSels dims rest with
      | .ok l => .ok ((src, s) :: l)
      | .err e => .err e
  | _, _ => .err "IndexError"

def viewShape : List (Dim × Sel) → List Int
  | [] => []
  | (_, .point _) :: l => viewShape l
  | (_, .range adj _) :: l => adj.len :: viewShape l
  | (_, .newaxis) :: l => 1 :: viewShape l

def viewStrides : List (Dim × Sel) → List Int
  | [] => []
  | (_, .point _) :: l => viewStrides l
  | (d, .range _ step) :: l => d.stride * step :: viewStrides l
  | (_, .newaxis) :: l => 0 :: viewStrides l

def viewOffset : List (Dim × Sel) → Int
  | [] => 0
  | (d, .point j) :: l => j * d.stride + viewOffset l
  | (d, .range adj _) :: l => adj.start * d.stride + viewOffset l
  | (_, .newaxis) :: l => viewOffset l

/-- The source multi-index (one entry per *source* dimension) of the view
element with multi-index `ks`. -/
def srcIndex : List (Dim × Sel) → List Int → List Int
  | [], _ => []
  | (_, .point j) :: l, ks => j :: srcIndex l ks
  | (_, .range adj step) :: l, k :: ks => (adj.start + k * step) :: srcIndex l ks
  | (_, .range _ _) :: _, [] => []
  | (_, .newaxis) :: l, _ :: ks => srcIndex l ks
  | (_, .newaxis) :: _, [] => []

/-- strides of the source dimensions actually consumed -/
def srcStrides : List (Dim × Sel) → List Int
  | [] => []
  | (_, .newaxis) :: l => srcStrides l
  | (d, _) :: l => d.stride :: srcStrides l

def srcShape : List (Dim × Sel) → List Int
  | [] => []
  | (_, .newaxis) :: l => srcShape l
  | (d, _) :: l => d.shape :: srcShape l

def dot : List Int → List Int → Int
  | a :: as, b :: bs => a * b + dot as bs
  | _, _ => 0

/-- `ks` is a valid multi-index of an array of shape `ns`. -/
def InBox : List Int → List Int → Prop
  | [], [] => True
  | k :: ks, n :: ns => (0 ≤ k ∧ k < n) ∧ InBox ks ns
  | _, _ => False

def isEll : Item → Bool
  | .ell => true
  | _ => false

def consumesDim : Item → Bool
  | .ell => false
  | .none => false
  | _ => true

/-- NumPy's expansion of an index tuple to one item per dimension: at most
one `Ellipsis`, it stands for as many full slices as needed; missing trailing
dimensions are full slices; too many indices is an IndexError. -/
def specExpand (t : List Item) (ndim : Nat) : Res (List Item) :=
  if t.any (· = Item.bad) then .err "IndexError" else
  let nEll := (t.filter isEll).length
  let k := (t.filter consumesDim).length
  if nEll > 1 then .err "IndexError"
  else if k > ndim then .err "IndexError"
  else if nEll = 1 then
    .ok (t.flatMap fun it => if isEll it then List.replicate (ndim - k) Item.full else [it])
  else .ok (t ++ List.replicate (ndim - k) Item.full)

/-- The view (or scalar) NumPy basic indexing returns. -/
structure SpecView where
  shape : List Int
  strides : List Int
  offset : Int
  deriving DecidableEq, Repr

def SpecView.ofSels (l : List (Dim × Sel)) : SpecView := ⟨viewShape l, viewStrides l, viewOffset l⟩

def specGetitem (dims : List Dim) (ix : Index) : Res SpecView :=
  let t := match ix with
    | .single x => [x]
    | .tuple t => t
  match specExpand t dims.length with
  | .err e => .err e
  | .ok items => (specSels dims items).map SpecView.ofSels

/-- A destination slice struct with only direct dimensions (`suboffsets[i] = -1`,
`suboffset_dim = -1`, data pointer `off` bytes into the buffer). -/
def Dst.direct (sh st : List Int) (off : Int) : Dst := ⟨sh, st, sh.map (fun _ => -1), [off], -1⟩

/-- a Python int that converts to `Py_ssize_t` -/
def InSsize (x : Int) : Prop := -ssizeMax - 1 ≤ x ∧ x ≤ ssizeMax

def OptIn : Option Int → Prop
  | .none => True
  | .some x => InSsize x

/-- an index or a slice whose fields convert to `Py_ssize_t` (no Ellipsis / None / other object) -/
def PlainItem : Item → Prop
  | .idx i => InSsize i
  | .slc s e st => OptIn s ∧ OptIn e ∧ OptIn st
  | _ => False

def renderSpec : Res SpecView → String
  | .err e => "err " ++ e
  | .ok v => s!"ok view {intsToStr v.shape} {intsToStr v.strides} {v.offset}"

/-- `spec <ndim> dims… T|O items…` -/
def handleSpec : List String → String
  | rest =>
    match parseDims rest with
    | some (dims, kind :: items) =>
      match items.mapM parseItem with
      | some its =>
        if kind = "T" then renderSpec (specGetitem dims (.tuple its))
        else if kind = "O" then
          match its with
          | [x] => renderSpec (specGetitem dims (.single x))
          | _ => "bad-op"
        else "bad-op"
      | .none => "bad-op"
    | _ => "bad-op"

/-- line-protocol entry of property C16 -/
def handle : List String → String
  | "spec" :: rest => handleSpec rest
  | l => handleModel l

end CyVerif.C16

import CyVerif.Model.Util
/-!
# C49 — abstract specification: a flat document with named holes

The specification knows nothing about trees, child lists, `commit` or heap
nodes.  The whole state is ONE flat list of items.  Every buffer `b` owns a
bracket pair `op b … cl b`; `cl b` is the buffer's write cursor ("hole").

* `write b s ms`   puts the fragment `(s, ms)` immediately before `cl b`
* `insertion_point b` puts a fresh empty pair `op c, cl c` immediately before `cl b`
* `insert b t`     moves the whole segment `op t … cl t` immediately before `cl b`
* `commit b`       does nothing
* `reset b`        empties the segment of `b`; buffers that were nested directly
                   inside it become stand-alone segments again
* `getvalue b`     is the concatenation of the fragment texts between `op b` and
                   `cl b`, `allmarkers b` the concatenation of their marker lists.
-/
namespace CyVerif.C49

inductive Item where
  | frag (s : String) (ms : List Nat)
  | op (b : Nat)
  | cl (b : Nat)
  deriving DecidableEq, Repr

abbrev Doc := List Item

/-- insert the items `x` immediately before the first occurrence of `y` (identity if absent) -/
def insBefore (y : Item) (x : Doc) : Doc → Doc
  | [] => []
  | a :: r => if a = y then x ++ a :: r else a :: insBefore y x r

/-- everything after the first occurrence of `y` -/
def after (y : Item) : Doc → Doc
  | [] => []
  | a :: r => if a = y then r else after y r

/-- everything before the first occurrence of `y` -/
def before (y : Item) : Doc → Doc
  | [] => []
  | a :: r => if a = y then [] else a :: before y r

/-- the items strictly between `op k` and `cl k` -/
def region (k : Nat) (d : Doc) : Doc := before (.cl k) (after (.op k) d)

/-- the document without the segment `op k … cl k` -/
def cut (k : Nat) (d : Doc) : Doc := before (.op k) d ++ after (.cl k) (after (.op k) d)

/-- the document with the inside of the segment of `k` removed -/
def clearRegion (k : Nat) (d : Doc) : Doc :=
  before (.op k) d ++ .op k :: .cl k :: after (.cl k) (after (.op k) d)

/-- concatenated text of the fragments of a document -/
def textD : Doc → String
  | [] => ""
  | .frag s _ :: r => s ++ textD r
  | _ :: r => textD r

/-- concatenated marker lists of the fragments of a document -/
def marksD : Doc → List Nat
  | [] => []
  | .frag _ ms :: r => ms ++ marksD r
  | _ :: r => marksD r

/-- the fragments of a document, in order -/
def fragsD : Doc → List (String × List Nat)
  | [] => []
  | .frag s ms :: r => (s, ms) :: fragsD r
  | _ :: r => fragsD r

/-- Scan a bracket-free-at-depth-0 view of a document: keep the segments that
start at depth 0 (whole), drop fragments at depth 0.  `st = some c` means
"inside the segment of `c`, copy until `cl c`". -/
def keepTop : Option Nat → Doc → Doc
  | _, [] => []
  | none, .op c :: r => .op c :: keepTop (some c) r
  | none, _ :: r => keepTop none r
  | some c, a :: r => a :: keepTop (if a = .cl c then none else some c) r

/-- names of the segments that start at depth 0 -/
def topNames : Option Nat → Doc → List Nat
  | _, [] => []
  | none, .op c :: r => c :: topNames (some c) r
  | none, _ :: r => topNames none r
  | some c, a :: r => topNames (if a = .cl c then none else some c) r

structure Spec where
  doc : Doc
  n : Nat
  roots : List Nat
  deriving Repr

def Spec.init : Spec := ⟨[], 0, []⟩

/-- operations of a history; buffers are named by creation order 0,1,2,… -/
inductive Op where
  | new
  | write (b : Nat) (s : String) (ms : List Nat)
  | ip (b : Nat)
  | insert (b t : Nat)
  | commit (b : Nat)
  | reset (b : Nat)
  deriving Repr, DecidableEq

/-- One step of the specification.  `none` = the operation is outside the
guard: unknown buffer; markers without text; `insert b t` where `t` is not a
stand-alone tree (already inserted / an insertion point) or `b` lies inside `t`. -/
def Spec.step (sp : Spec) : Op → Option Spec
  | .new => some ⟨sp.doc ++ [.op sp.n, .cl sp.n], sp.n + 1, sp.roots ++ [sp.n]⟩
  | .write b s ms =>
    if b < sp.n then
      if s = "" then (if ms = [] then some sp else none)
      else some { sp with doc := insBefore (.cl b) [.frag s ms] sp.doc }
    else none
  | .ip b =>
    if b < sp.n then
      some { sp with doc := insBefore (.cl b) [.op sp.n, .cl sp.n] sp.doc, n := sp.n + 1 }
    else none
  | .insert b t =>
    if b < sp.n ∧ t ∈ sp.roots ∧ t ≠ b ∧ Item.cl b ∉ region t sp.doc then
      some { sp with
        doc := insBefore (.cl b) (.op t :: region t sp.doc ++ [.cl t]) (cut t sp.doc),
        roots := sp.roots.filter (· ≠ t) }
    else none
  | .commit b => if b < sp.n then some sp else none
  | .reset b =>
    if b < sp.n then
      some { sp with
        doc := clearRegion b sp.doc ++ keepTop none (region b sp.doc),
        roots := sp.roots ++ topNames none (region b sp.doc) }
    else none

def Spec.run (sp : Spec) : List Op → Option Spec
  | [] => some sp
  | o :: os => match sp.step o with
    | none => none
    | some sp' => sp'.run os

/-- the decidable precondition on histories -/
def GuardOK (h : List Op) : Prop := (Spec.init.run h).isSome

instance (h : List Op) : Decidable (GuardOK h) := by unfold GuardOK; infer_instance

def Spec.getvalue (sp : Spec) (b : Nat) : String := textD (region b sp.doc)
def Spec.allmarkers (sp : Spec) (b : Nat) : List Nat := marksD (region b sp.doc)
def Spec.empty (sp : Spec) (b : Nat) : Bool := textD (region b sp.doc) = ""

end CyVerif.C49

import CyVerif.Model.C40Val
/-!
C40 driver: IEEE-754 double instance of `FOps` (executable only; the theorems are about an arbitrary
`FOps`).  Exact integer arithmetic on the decoded bit patterns is used wherever the C library would be
needed (`fmod`) or where Python's result is defined exactly (int/float comparison).
-/
namespace CyVerif.C40.Dbl

/-- finite double as `sign * m * 2^e` -/
structure Dec where
  neg : Bool
  m : Nat
  e : Int

def decode (x : Float) : Option Dec :=
  let b := x.toBits.toNat
  let s := b / 2 ^ 63 % 2 = 1
  let e : Nat := b / 2 ^ 52 % 2048
  let m : Nat := b % 2 ^ 52
  if e = 2047 then none
  else if e = 0 then some ⟨s, m, -1074⟩
  else some ⟨s, 2 ^ 52 + m, (e : Int) - 1075⟩

def ofNatExact (n : Nat) : Option Float :=
  if n = 0 then some 0.0
  else if n.log2 + 1 > 1024 then none
  else let r := Float.ofNat n; if r.isFinite then some r else none

def ofInt (n : Int) : Option Float :=
  match n with
  | .ofNat k => ofNatExact k
  | .negSucc k => (ofNatExact (k + 1)).map Float.neg

/-- `m * 2^e` (m < 2^53 after the operations below, so the scaling is exact when representable) -/
def build (neg : Bool) (m : Nat) (e : Int) : Float :=
  let r := (Float.ofNat m).scaleB e
  if neg then -r else r

def isZero (x : Float) : Bool := x == 0.0

/-- C `fmod` for finite x, finite nonzero y: exact -/
def cFmod (x y : Float) : Option Float :=
  match decode x, decode y with
  | some dx, some dy =>
    let e := min dx.e dy.e
    let X := dx.m * 2 ^ (dx.e - e).toNat
    let Y := dy.m * 2 ^ (dy.e - e).toNat
    if Y = 0 then none else some (build dx.neg (X % Y) e)
  | _, _ => none

def copysign0 (y : Float) : Float := if y.toBits.toNat / 2 ^ 63 % 2 = 1 then -0.0 else 0.0

/-- CPython `float_rem` -/
def pyMod (x y : Float) : FR Float :=
  if isZero y then .zerodiv
  else if ¬x.isFinite ∨ ¬y.isFinite then .unsup
  else match cFmod x y with
    | none => .unsup
    | some m =>
      if ¬isZero m then
        (if (y < 0.0) != (m < 0.0) then .val (m + y) else .val m)
      else .val (copysign0 y)

/-- CPython `float_floor_div` (via `_float_div_mod`) -/
def pyFloorDiv (x y : Float) : FR Float :=
  if isZero y then .zerodiv
  else if ¬x.isFinite ∨ ¬y.isFinite then .unsup
  else match cFmod x y with
    | none => .unsup
    | some m =>
      let div := (x - m) / y
      let div := if ¬isZero m ∧ ((y < 0.0) != (m < 0.0)) then div - 1.0 else div
      if ¬isZero div then
        let fl := div.floor
        .val (if div - fl > 0.5 then fl + 1.0 else fl)
      else .val (copysign0 (x / y))

def cmpF (op : CmpOp) (x y : Float) : Bool :=
  match op with
  | .lt => x < y | .le => x ≤ y | .eq => x == y | .ne => x != y | .gt => x > y | .ge => x ≥ y
  | .is_ => x == y | .isnot => x != y

/-- exact comparison of an integer with a double (CPython `float_richcompare`) -/
def cmpIF (op : CmpOp) (n : Int) (y : Float) : Bool :=
  if y.isNaN then op = .ne ∨ op = .isnot
  else match decode y with
    | none => -- ±inf
      let ypos := y > 0.0
      (match op with
      | .lt | .le => ypos | .gt | .ge => !ypos | .eq | .is_ => false | .ne | .isnot => true)
    | some d =>
      let ym : Int := if d.neg then -(d.m : Int) else d.m
      -- compare n with ym * 2^e
      let (l, r) := if d.e ≥ 0 then (n, ym * 2 ^ d.e.toNat) else (n * 2 ^ (-d.e).toNat, ym)
      cmpInt op l r

def divInt (a b : Int) : Option Float :=
  let lim : Int := 9007199254740992
  if -lim ≤ a ∧ a ≤ lim ∧ -lim ≤ b ∧ b ≤ lim then
    match ofInt a, ofInt b with
    | some x, some y => some (x / y)
    | _, _ => none
  else none

def fops : FOps Float where
  ofBits n := Float.ofBits n.toUInt64
  ofInt := ofInt
  add := (· + ·)
  sub := (· - ·)
  mul := (· * ·)
  div x y := if isZero y then .zerodiv else .val (x / y)
  fdiv := pyFloorDiv
  fmod := pyMod
  neg := Float.neg
  abs := Float.abs
  cmp := cmpF
  cmpIF := cmpIF
  truth x := !(isZero x)
  divInt := divInt

end CyVerif.C40.Dbl

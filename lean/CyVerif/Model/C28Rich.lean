import CyVerif.Model.C28Tables
/-!
# C28 — `tp_richcompare` of every kind of class and `do_richcompare`
-/
namespace CyVerif.C28

/-- what attribute lookup of a comparison method name on a heap type finds (none = `object`'s) -/
inductive AttrC
  | func (d : Nat)                -- Python function of class d
  | syn (root : Cmp)              -- function added by `functools.total_ordering`, derived from `root`
  | wrap (chp : Chain)            -- slot wrapper of the generated `tp_richcompare` of the cdef class heading `chp`
  deriving DecidableEq, Repr

/-- lookup that ignores `functools.total_ordering` additions of the head class (used while
`total_ordering` itself inspects the class) and the plain lookup, by recursion on the chain.
`roots`: which ordering names `functools.total_ordering` finds defined (not `object`'s). -/
def lookupC : Chain → Cmp → Option AttrC
  | [], _ => none
  | c :: rest, m =>
    match c.kind with
    | .int => lookupC rest m
    | .cdef => if c.any then some (.wrap (c :: rest)) else lookupC rest m
    | .py =>
      if c.has m then some (.func c.id)
      else
        let below := lookupC rest m
        let found := fun x => c.has x || (lookupC rest x).isSome
        if c.tord && !m.isEqNe && !(c.has m || below.isSome) then
          (match orderingSource found with
           | some root => some (.syn root)
           | none => below)
        else below

/-- identity of a `tp_richcompare` function -/
inductive RichFn
  | gen (chp : Chain)
  | object
  | slot
  | int
  deriving DecidableEq, Repr

/-- nearest cdef class of the chain that defines a comparison method (owner of a generated function) -/
def cyProviderC : Chain → Option Chain
  | [] => none
  | c :: rest => if c.any then some (c :: rest) else cyProviderC rest

def sameChain (a b : Chain) : Bool :=
  match a, b with
  | x :: _, y :: _ => Nat.beq x.id y.id
  | [], [] => true
  | _, _ => false

/-- `update_one_slot` for `tp_richcompare` over the six names: a specific C function only if all six
resolve to slot wrappers of that same function -/
def candOf : Option AttrC → RichFn
  | none => .object
  | some (.wrap chp) => .gen chp
  | some _ => .slot

def mergeFn : RichFn → RichFn → RichFn
  | .object, .object => .object
  | .gen a, .gen b => if sameChain a b then .gen a else .slot
  | _, _ => .slot

def pyRichFn (ch : Chain) : RichFn :=
  mergeFn (candOf (lookupC ch .eq)) (mergeFn (candOf (lookupC ch .ne)) (mergeFn (candOf (lookupC ch .lt))
    (mergeFn (candOf (lookupC ch .gt)) (mergeFn (candOf (lookupC ch .le)) (candOf (lookupC ch .ge))))))

def typeRichC (ch : Chain) : RichFn :=
  match ch with
  | [] => .object
  | c :: _ =>
    match c.kind with
    | .int => .int
    | .cdef => (match cyProviderC ch with | none => .object | some chp => .gen chp)
    | .py => pyRichFn ch

/-- `tp_richcompare` for `==` only (no recursion needed): `self`'s chain, identical operands? -/
def richEq (self : Chain) (ident : Bool) (side : Side) (f : RichFn) : RTree CRes :=
  match f with
  | .int => .leaf .ni
  | .object => .leaf (if ident then .b true else .ni)
  | .gen chp => genC chp side .eq
  | .slot =>
    match lookupC self .eq with
    | none => .leaf (if ident then .b true else .ni)
    | some (.func d) => askUser d .eq side
    | some (.wrap chp) => genC chp side .eq
    | some (.syn _) => .leaf .ni

/-- `object_richcompare` -/
def objectRich (self : Chain) (ident : Bool) (side : Side) (op : Cmp) : RTree CRes :=
  match op with
  | .eq => .leaf (if ident then .b true else .ni)
  | .ne => (richEq self ident side (typeRichC self)).bind fun r =>
      (match r with | .ni => .leaf .ni | .b v => .leaf (.b (!v)))
  | _ => .leaf .ni

/-- `tp_richcompare` for `==` / `!=` (never synthesised by `total_ordering`) -/
def richEN (self : Chain) (ident : Bool) (side : Side) (op : Cmp) : RTree CRes :=
  match typeRichC self with
  | .int => .leaf .ni
  | .object => objectRich self ident side op
  | .gen chp => genC chp side op
  | .slot =>
    match lookupC self op with
    | none => objectRich self ident side op
    | some (.func d) => askUser d op side
    | some (.wrap chp) => genC chp side op
    | some (.syn _) => .leaf .ni

def isSubC (sub sup : Chain) : Bool :=
  match sup with
  | [] => false
  | s :: _ => sub.any fun c => Nat.beq c.id s.id

/-- `do_richcompare(v, w, op)`, generic in the two slot calls -/
def doRichG (v w : Chain) (ident : Bool) (op : Cmp) (fv fw : RTree CRes) : RTree COut :=
  let fallback : RTree COut :=
    match op with
    | .eq => .leaf (.b ident)
    | .ne => .leaf (.b (!ident))
    | _ => .leaf .typeError
  let fin := fun (r : CRes) (next : RTree COut) => match r with | .b x => RTree.leaf (COut.b x) | .ni => next
  if !sameChain v w && isSubC w v then
    fw.bind fun r => fin r (fv.bind fun r2 => fin r2 fallback)
  else
    fv.bind fun r => fin r (fw.bind fun r2 => fin r2 fallback)

/-- nested `self == other` / `self != other` inside a `functools.total_ordering` function;
`self` is the operand on `side` -/
def doRichEN (self other : Chain) (ident : Bool) (side : Side) (op : Cmp) : RTree COut :=
  doRichG self other ident op (richEN self ident side op) (richEN other ident side.flip op)

/-- `functools._<op>_from_<root>(self, other)` -/
def synthPy (self other : Chain) (ident : Bool) (side : Side) (root op : Cmp) : RTree CRes :=
  let rootCall : RTree CRes :=
    match lookupC self root with
    | some (.func d) => askUser d root side
    | some (.wrap chp) => genC chp side root
    | _ => .leaf .ni
  match pyToTable root op with
  | none => .leaf .ni
  | some entry =>
    rootCall.bind fun r =>
      match r with
      | .ni => .leaf .ni
      | .b order =>
        synthTail entry order fun invEq =>
          (doRichEN self other ident side (if invEq then .ne else .eq)).bind fun o =>
            (match o with | .b x => .leaf (.b x) | .typeError => .leaf .ni)

/-- `tp_richcompare(self, other, op)` of `self`'s type -/
def callRich (self other : Chain) (ident : Bool) (side : Side) (op : Cmp) : RTree CRes :=
  if op.isEqNe then richEN self ident side op
  else
    match typeRichC self with
    | .int => .leaf .ni
    | .object => .leaf .ni
    | .gen chp => genC chp side op
    | .slot =>
      match lookupC self op with
      | none => .leaf .ni
      | some (.func d) => askUser d op side
      | some (.wrap chp) => genC chp side op
      | some (.syn root) => synthPy self other ident side root op

/-- `l <op> r` -/
def doRich (l r : Chain) (ident : Bool) (op : Cmp) : RTree COut :=
  doRichG l r ident op (callRich l r ident .L op) (callRich r l ident .R op.swap)

/-- the equivalent Python classes -/
def pyCC (c : CC) : CC := { c with kind := match c.kind with | .cdef => .py | k => k }
def pyChain : Chain → Chain
  | [] => []
  | c :: rest => pyCC c :: pyChain rest

end CyVerif.C28

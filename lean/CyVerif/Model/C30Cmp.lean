import CyVerif.Model.Util
/-!
C30 (second part) — what the synthesised comparison methods compute.

CPython's dataclass `__eq__`/`__lt__`/… compare the tuples of the compared fields
(`tuple_richcompare`: skip leading items that are identical or equal, then apply the operator to the
first differing pair, or compare the lengths).  Cython's `generate_cmp_code` emits a chain
`if self.f OP' other.f: return True` (order only) / `if self.f != other.f: return False` per field
and a final `return True/False`.  Both are modelled over an abstract value type with its own
`==`, `!=`, identity and ordering operators (which may raise).
-/
namespace CyVerif.C30Cmp

inductive Op where
  | eq | lt | le | gt | ge
  deriving DecidableEq, Repr

/-- the operators of the field values: identity, `==`, `!=` (truth values), `<`,`<=`,`>`,`>=` (may raise) -/
structure Ops (α : Type) where
  ident : α → α → Bool
  eq : α → α → Bool
  ne : α → α → Bool
  lt : α → α → Res Bool
  le : α → α → Res Bool
  gt : α → α → Res Bool
  ge : α → α → Res Bool

def Op.final : Op → Bool
  | .eq => true | .le => true | .ge => true | .lt => false | .gt => false

def Ops.apply {α} (O : Ops α) : Op → α → α → Res Bool
  | .eq => fun x y => .ok (O.eq x y)
  | .lt => O.lt | .le => O.le | .gt => O.gt | .ge => O.ge

/-- `<` for `<`/`<=`, `>` for `>`/`>=` (`op.replace('=', '')`) -/
def Ops.strict {α} (O : Ops α) : Op → α → α → Res Bool
  | .gt => O.gt | .ge => O.gt
  | _ => O.lt

/-- CPython: tuple comparison of the two field tuples (equal lengths: same class) -/
def pyCmp {α} (O : Ops α) (op : Op) : List (α × α) → Res Bool
  | [] => .ok op.final
  | (x, y) :: t =>
    if O.ident x y || O.eq x y then pyCmp O op t
    else match op with
      | .eq => .ok false
      | _ => O.apply op x y

/-- Cython: the emitted if-chain -/
def cyCmp {α} (O : Ops α) (op : Op) : List (α × α) → Res Bool
  | [] => .ok op.final
  | (x, y) :: t =>
    match op with
    | .eq => if O.ne x y then .ok false else cyCmp O op t
    | _ =>
      match O.strict op x y with
      | .err e => .err e
      | .ok true => .ok true
      | .ok false => if O.ne x y then .ok false else cyCmp O op t

/-- a pair of field values on which the two schemes cannot be told apart -/
def Sane {α} (O : Ops α) (x y : α) : Prop :=
  O.ne x y = !O.eq x y ∧
  (O.ident x y = true → O.eq x y = true) ∧
  (O.eq x y = true → O.lt x y = .ok false ∧ O.gt x y = .ok false) ∧
  (O.eq x y = false → O.le x y = O.lt x y ∧ O.ge x y = O.gt x y)


/-! ### the class-identity guard in front of the comparison

Both sources test the operand classes before comparing any field and answer `NotImplemented`
(`none` below) otherwise: CPython `if other.__class__ is self.__class__`, Cython
`if other.__class__ is not self.__class__: return NotImplemented`.  `Rel` is the class of `other`
relative to the class of `self`; `inDef` says whether `other` is an instance of the class that
DEFINES the method (relevant only for a guard written as `isinstance(other, <defining class>)`:
two sibling subclasses are unrelated to each other but both instances of the defining base). -/
inductive Rel where
  | same | sub | super | unrelated
  deriving DecidableEq, Repr

/-- the guard found in the method text (regenerated from `generate_cmp_code` by the harness) -/
inductive Guard where
  | exact        -- `other.__class__ is not self.__class__`
  | isinstance   -- `not isinstance(other, <defining class>)`
  deriving DecidableEq, Repr

def guardPass : Guard → Rel → Bool → Bool
  | .exact, r, _ => r == .same
  | .isinstance, r, inDef => r == .same || r == .sub || inDef

/-- result of `type(self).__op__(self, other)`: `none` = NotImplemented -/
def pyMethod {α} (O : Ops α) (op : Op) (rel : Rel) (ps : List (α × α)) : Option (Res Bool) :=
  if rel == .same then some (pyCmp O op ps) else none

def cyMethod {α} (g : Guard) (O : Ops α) (op : Op) (rel : Rel) (inDef : Bool) (ps : List (α × α)) :
    Option (Res Bool) :=
  if guardPass g rel inDef then some (cyCmp O op ps) else none

/-- obligation on the regenerated guard: it lets exactly the same-class operands through -/
def GuardWF (g : Guard) : Prop :=
  ∀ inDef : Bool, guardPass g .same inDef = true ∧ guardPass g .sub inDef = false ∧
    guardPass g .super inDef = false ∧ guardPass g .unrelated inDef = false

instance (g : Guard) : Decidable (GuardWF g) := by unfold GuardWF; infer_instance

/-! concrete values for the differential run -/
inductive Val where
  | int (n : Int)
  | none
  | nan (id : Nat)      -- a float NaN object; `id` distinguishes the objects
  deriving DecidableEq, Repr

def vEq : Val → Val → Bool
  | .int a, .int b => a == b
  | .none, .none => true
  | _, _ => false

def vIdent : Val → Val → Bool
  | .int a, .int b => a == b
  | .none, .none => true
  | .nan i, .nan j => i == j
  | _, _ => false

def vOrd (f : Int → Int → Bool) : Val → Val → Res Bool
  | .int a, .int b => .ok (f a b)
  | .none, _ => .err "TypeError"
  | _, .none => .err "TypeError"
  | _, _ => .ok false       -- a NaN operand

def valOps : Ops Val :=
  { ident := vIdent, eq := vEq, ne := fun x y => !vEq x y,
    lt := vOrd (· < ·), le := vOrd (· ≤ ·), gt := vOrd (· > ·), ge := vOrd (· ≥ ·) }

def parseVal (s : String) : Option Val :=
  match s.toList with
  | ['N'] => some .none
  | 'i' :: r => (String.ofList r).toInt?.map .int
  | 'n' :: r => (String.ofList r).toNat?.map .nan
  | _ => none

def parseOp : String → Option Op
  | "eq" => some .eq | "lt" => some .lt | "le" => some .le | "gt" => some .gt | "ge" => some .ge
  | _ => none

def renderB : Res Bool → String
  | .ok true => "ok True"
  | .ok false => "ok False"
  | .err e => "err " ++ e

def parseVals (s : String) : Option (List Val) :=
  if s == "-" then some [] else (s.splitOn ",").mapM parseVal

def parseRel : String → Option Rel
  | "same" => some .same | "sub" => some .sub | "super" => some .super
  | "unrelated" => some .unrelated | _ => none

def parseGuard : String → Option Guard
  | "exact" => some .exact | "isinstance" => some .isinstance | _ => none

def renderM : Option (Res Bool) → String
  | none => "ok NotImplemented"
  | some r => renderB r

def handle : List String → String
  | [who, op, xs, ys, rel, inDef, guard] =>
    match parseOp op, parseVals xs, parseVals ys, parseRel rel, parseGuard guard with
    | some op, some xs, some ys, some rel, some g =>
      if xs.length != ys.length || (inDef != "0" && inDef != "1") then "bad-op"
      else if who == "py" then renderM (pyMethod valOps op rel (xs.zip ys))
      else if who == "cy" then renderM (cyMethod g valOps op rel (inDef == "1") (xs.zip ys))
      else "bad-op"
    | _, _, _, _, _ => "bad-op"
  | [who, op, xs, ys] =>
    match parseOp op, parseVals xs, parseVals ys with
    | some op, some xs, some ys =>
      if xs.length != ys.length then "bad-op"
      else if who == "py" then renderB (pyCmp valOps op (xs.zip ys))
      else if who == "cy" then renderB (cyCmp valOps op (xs.zip ys))
      else "bad-op"
    | _, _, _ => "bad-op"
  | _ => "bad-op"

end CyVerif.C30Cmp

import CyVerif.Model.Util
/-!
C30 (second part) — what the synthesised comparison methods compute.

CPython's dataclass `__eq__`/`__lt__`/… compare the tuples of the compared fields
(`tuple_richcompare`: skip leading items that are identical or equal, then apply the operator to the
first differing pair, or compare the lengths).  Cython's `generate_cmp_code` emits a chain
`if self.f OP' other.f: return True` (order only) / `if self.f != other.f: return False` per field
and a final `return True/False`.  Both are modelled over an abstract value type with its own
`==`, `!=`, identity and ordering operators (which may raise).
-/
namespace CyVerif.C30Cmp

inductive Op where
  | eq | lt | le | gt | ge
  deriving DecidableEq, Repr

/-- the operators of the field values: identity, `==`, `!=` (truth values), `<`,`<=`,`>`,`>=` (may raise) -/
structure Ops (α : Type) where
  ident : α → α → Bool
  eq : α → α → Bool
  ne : α → α → Bool
  lt : α → α → Res Bool
  le : α → α → Res Bool
  gt : α → α → Res Bool
  ge : α → α → Res Bool

def Op.final : Op → Bool
  | .eq => true | .le => true | .ge => true | .lt => false | .gt => false

def Ops.apply {α} (O : Ops α) : Op → α → α → Res Bool
  | .eq => fun x y => .ok (O.eq x y)
  | .lt => O.lt | .le => O.le | .gt => O.gt | .ge => O.ge

/-- `<` for `<`/`<=`, `>` for `>`/`>=` (`op.replace('=', '')`) -/
def Ops.strict {α} (O : Ops α) : Op → α → α → Res Bool
  | .gt => O.gt | .ge => O.gt
  | _ => O.lt

/-- CPython: tuple comparison of the two field tuples (equal lengths: same class) -/
def pyCmp {α} (O : Ops α) (op : Op) : List (α × α) → Res Bool
  | [] => .ok op.final
  | (x, y) :: t =>
    if O.ident x y || O.eq x y then pyCmp O op t
    else match op with
      | .eq => .ok false
      | _ => O.apply op x y

/-- Cython: the emitted if-chain -/
def cyCmp {α} (O : Ops α) (op : Op) : List (α × α) → Res Bool
  | [] => .ok op.final
  | (x, y) :: t =>
    match op with
    | .eq => if O.ne x y then .ok false else cyCmp O op t
    | _ =>
      match O.strict op x y with
      | .err e => .err e
      | .ok true => .ok true
      | .ok false => if O.ne x y then .ok false else cyCmp O op t

/-- a pair of field values on which the two schemes cannot be told apart -/
def Sane {α} (O : Ops α) (x y : α) : Prop :=
  O.ne x y = !O.eq x y ∧
  (O.ident x y = true → O.eq x y = true) ∧
  (O.eq x y = true → O.lt x y = .ok false ∧ O.gt x y = .ok false) ∧
  (O.eq x y = false → O.le x y = O.lt x y ∧ O.ge x y = O.gt x y)

/-! concrete values for the differential run -/
inductive Val where
  | int (n : Int)
  | none
  | nan (id : Nat)      -- a float NaN object; `id` distinguishes the objects
  deriving DecidableEq, Repr

def vEq : Val → Val → Bool
  | .int a, .int b => a == b
  | .none, .none => true
  | _, _ => false

def vIdent : Val → Val → Bool
  | .int a, .int b => a == b
  | .none, .none => true
  | .nan i, .nan j => i == j
  | _, _ => false

def vOrd (f : Int → Int → Bool) : Val → Val → Res Bool
  | .int a, .int b => .ok (f a b)
  | .none, _ => .err "TypeError"
  | _, .none => .err "TypeError"
  | _, _ => .ok false       -- a NaN operand

def valOps : Ops Val :=
  { ident := vIdent, eq := vEq, ne := fun x y => !vEq x y,
    lt := vOrd (· < ·), le := vOrd (· ≤ ·), gt := vOrd (· > ·), ge := vOrd (· ≥ ·) }

def parseVal (s : String) : Option Val :=
  match s.toList with
  | ['N'] => some .none
  | 'i' :: r => (String.ofList r).toInt?.map .int
  | 'n' :: r => (String.ofList r).toNat?.map .nan
  | _ => none

def parseOp : String → Option Op
  | "eq" => some .eq | "lt" => some .lt | "le" => some .le | "gt" => some .gt | "ge" => some .ge
  | _ => none

def renderB : Res Bool → String
  | .ok true => "ok True"
  | .ok false => "ok False"
  | .err e => "err " ++ e

def parseVals (s : String) : Option (List Val) :=
  if s == "-" then some [] else (s.splitOn ",").mapM parseVal

def handle : List String → String
  | [who, op, xs, ys] =>
    match parseOp op, parseVals xs, parseVals ys with
    | some op, some xs, some ys =>
      if xs.length != ys.length then "bad-op"
      else if who == "py" then renderB (pyCmp valOps op (xs.zip ys))
      else if who == "cy" then renderB (cyCmp valOps op (xs.zip ys))
      else "bad-op"
    | _, _, _ => "bad-op"
  | _ => "bad-op"

end CyVerif.C30Cmp

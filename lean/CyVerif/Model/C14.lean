import CyVerif.Model.Util
/-!
Model for C14 "optimised loops iterate exactly like Python loops" (range part).

* Python side (spec): `rangeLen`/`pyRange` (CPython `get_len_of_range`, `range.__iter__`),
  `pyFor` (a `for … else` statement over a list of values with a body that may `break`).
* C side: the loop text `ForFromStatNode.generate_execution_code` (Cython/Compiler/Nodes.py) emits for a
  `from_range` loop with a C integer loop type, with C integer semantics (integer promotion, wrap-around of
  unsigned arithmetic and of narrowing stores, overflow of signed arithmetic in `int` or wider = `ub`), and
  `IterationTransform._transform_range_iteration` / `_build_range_step_calculation` (Cython/Compiler/Optimize.py)
  which choose relations, bounds and the start value of a `reversed(range(…))` loop.
-/
namespace CyVerif.C14

/-! ## C integer types -/
structure CTy where
  w : Nat
  signed : Bool
  deriving DecidableEq, Repr

namespace CTy
def lo (t : CTy) : Int := if t.signed then -((2 : Int) ^ (t.w - 1)) else 0
def hi (t : CTy) : Int := if t.signed then (2 : Int) ^ (t.w - 1) - 1 else (2 : Int) ^ t.w - 1
def inR (t : CTy) (x : Int) : Bool := decide (t.lo ≤ x) && decide (x ≤ t.hi)
/-- reduction modulo `2^w` into the range of the type -/
def wrap (t : CTy) (x : Int) : Int :=
  if t.signed then (x + (2 : Int) ^ (t.w - 1)) % (2 : Int) ^ t.w - (2 : Int) ^ (t.w - 1) else x % (2 : Int) ^ t.w
/-- C integer promotion (LP64: everything narrower than `int` is computed in `int`) -/
def prom (t : CTy) : CTy := if t.w < 32 then ⟨32, true⟩ else t
end CTy

/-- `strict`: the C standard (signed overflow in the arithmetic type is undefined).
    `wrap`: what the machine does at `-O0` (two's complement wrap-around); only used to compare runs. -/
inductive Mode where
  | strict | wrap
  deriving DecidableEq, Repr

/-- result of ONE arithmetic operation, carried out in the (already promoted) type `t`, whose exact value is `x` -/
def arith (m : Mode) (t : CTy) (x : Int) : Option Int :=
  if t.inR x then some x
  else if t.signed then (match m with | .strict => none | .wrap => some (t.wrap x))
  else some (t.wrap x)

/-- store a value into a variable of type `t` (conversion; out-of-range values are reduced modulo `2^w`:
    defined for unsigned `t`, implementation-defined = gcc's behaviour for signed `t`) -/
def store (t : CTy) (x : Int) : Int := if t.inR x then x else t.wrap x

/-! ## Python side -/

/-- `len(range(a, b, s))` (CPython `get_len_of_range`); 0 for `s = 0` (CPython raises ValueError before). -/
def rangeLen (a b s : Int) : Nat :=
  if 0 < s then (if a < b then ((b - a - 1) / s + 1).toNat else 0)
  else if s < 0 then (if b < a then ((a - b - 1) / (-s) + 1).toNat else 0)
  else 0

/-- `n` values starting at `a` with stride `s` -/
def rangeFrom (a s : Int) : Nat → List Int
  | 0 => []
  | n + 1 => a :: rangeFrom (a + s) s n

/-- `list(range(a, b, s))` -/
def pyRange (a b s : Int) : List Int := rangeFrom a s (rangeLen a b s)

/-- last element of a non-empty range -/
def rangeLast (a b s : Int) : Int := a + ((rangeLen a b s : Int) - 1) * s

inductive Ctl where
  | next | brk
  deriving DecidableEq, Repr

/-- `for x in xs: body  else: …` — `body` starts with the assignment of `x` to the target; the result is the
    final state and whether the `else` clause runs (iff the loop was not left by `break`). -/
def pyFor {σ : Type} (body : σ → Int → σ × Ctl) : List Int → σ → σ × Bool
  | [], st => (st, true)
  | x :: xs, st =>
    match body st x with
    | (st', .brk) => (st', false)
    | (st', .next) => pyFor body xs st'

/-! ## C side: one `for (…; …; …) { … }` statement -/

inductive Out (σ : Type) where
  | done (st : σ) (elseRan : Bool)
  | ub
  | timeout
  deriving Repr

/-- `for (lv = lv0; cond lv; ) { lv = pre lv; target = view lv; body; continue_label: lv = post lv; }`
    `none` = undefined behaviour in that step. -/
structure Loop where
  cond : Int → Option Bool
  pre : Int → Option Int
  view : Int → Int
  post : Int → Option Int

def gloop {σ : Type} (L : Loop) (body : σ → Int → σ × Ctl) : Nat → Int → σ → Out σ
  | 0, _, _ => .timeout
  | fuel + 1, lv, st =>
    match L.cond lv with
    | none => .ub
    | some false => .done st true          -- falls through to the `/*else*/` block
    | some true =>
      match L.pre lv with
      | none => .ub
      | some lv1 =>
        match body st (L.view lv1) with
        | (st', .brk) => .done st' false   -- `goto break_label` (after the else block)
        | (st', .next) =>
          match L.post lv1 with
          | none => .ub
          | some lv2 => gloop L body fuel lv2 st'

/-! ## `ForFromStatNode.generate_execution_code` (from_range, C integer loop type) -/

inductive Rel where
  | lt | le | gt | ge
  deriving DecidableEq, Repr

namespace Rel
def holds : Rel → Int → Int → Bool
  | .lt, x, y => decide (x < y)
  | .le, x, y => decide (x ≤ y)
  | .gt, x, y => decide (x > y)
  | .ge, x, y => decide (x ≥ y)
/-- `relation_table[relation1]`: the initial offset -/
def offset : Rel → Int
  | .le => 0 | .lt => 1 | .ge => 0 | .gt => -1
/-- `relation_table[relation1]`: `++` ↦ 1, `--` ↦ -1 -/
def dir : Rel → Int
  | .le => 1 | .lt => 1 | .ge => -1 | .gt => -1
/-- `relation2[0] == '>'` -/
def isDown : Rel → Bool
  | .gt => true | .ge => true | _ => false
end Rel

structure ForFrom where
  T : CTy          -- loopvar_type
  rel1 : Rel
  rel2 : Rel
  B1 : CTy         -- C type of the bound1 expression as emitted (`coerce_to(loop_type)` between C integers emits no cast)
  B2 : CTy         -- C type of the bound2 expression / temp
  b1 : Int         -- value of bound1 (a value of B1)
  b2 : Int         -- value of bound2 (a value of B2)
  step : Int       -- positive literal (1 if absent)
  fixedU : Bool    -- the repaired unsigned `range(a, b, -s)` form exists (see `usesNewForm`)
  deriving Repr

/-- `bound1.result() + offset` ("" = no operation) -/
def addOffset (m : Mode) (P : CTy) (b1 off : Int) : Option Int :=
  if off = 0 then some b1 else arith m P (b1 + off)

/-- the special branch `loopvar_type.is_int and not loopvar_type.signed and relation2[0] == '>'` -/
def ForFrom.unsignedDown (f : ForFrom) : Bool := !f.T.signed && f.rel2.isDown

/-- repaired form: only for the relation pair `_find_for_from_node_relations` produces for `range(a, b, -s)` -/
def ForFrom.usesNewForm (f : ForFrom) : Bool :=
  f.fixedU && !f.T.signed && f.rel1 == .ge && f.rel2 == .gt

/-- initial value of the loop temp: the bound expression is evaluated in ITS type, the result is stored into the temp -/
def forFromInit (m : Mode) (f : ForFrom) : Option Int :=
  let P1 := f.B1.prom
  if f.unsignedDown then
    if f.usesNewForm then some (store f.T f.b1)
    else
      -- `lv = b1 offset + step`
      (addOffset m P1 f.b1 f.rel1.offset).bind fun x =>
      (arith m P1 (x + f.step)).map (store f.T)
  else
    -- `lv = b1 offset`
    (addOffset m P1 f.b1 f.rel1.offset).map (store f.T)

/-- Comparisons and differences between the loop temp (type T) and a bound expression (a value of B that is also a
    value of T) are modelled exactly.  That is what C does unless a negative temp is converted to an unsigned type. -/
def compat (T B : CTy) : Bool :=
  !T.signed || B.prom.signed || decide (B.prom.w < T.prom.w)

/-- value of a bound expression as the comparison with the (unsigned) loop temp sees it: a negative value (only possible
    after a wrapped signed overflow, i.e. in `Mode.wrap`) is converted to the unsigned common type -/
def cmpConv (T B : CTy) (v : Int) : Int :=
  if v < 0 ∧ !T.prom.signed ∧ B.prom.w ≤ T.prom.w then T.prom.wrap v else v

def forFromLoop (m : Mode) (f : ForFrom) : Loop :=
  let P := f.T.prom
  let P2 := f.B2.prom
  let d := f.rel1.dir
  if f.unsignedDown then
    if f.usesNewForm then
      -- `for (u = b1; u > b2; u = (u - b2 > step) ? u - step : b2) { target = u; … }`
      { cond := fun u => some (decide (u > f.b2)),
        pre := some,
        view := id,
        post := fun u => some (if u - f.b2 > f.step then u - f.step else store f.T f.b2) }
    else
      -- `for (lv = …; lv rel2 b2 + step; ) { lv -= step; target = lv; … }`
      { cond := fun lv => (arith m P2 (f.b2 + f.step)).map fun B => f.rel2.holds lv (cmpConv f.T f.B2 B),
        pre := fun lv => (arith m P (lv + d * f.step)).map (store f.T),
        view := id,
        post := some }
  else
    -- `for (lv = …; lv rel2 b2; lv += step) { target = lv; … }`
    { cond := fun lv => some (f.rel2.holds lv f.b2),
      pre := some,
      view := id,
      post := fun lv => (arith m P (lv + d * f.step)).map (store f.T) }

def forFrom {σ : Type} (m : Mode) (f : ForFrom) (body : σ → Int → σ × Ctl) (fuel : Nat) (st : σ) : Out σ :=
  match forFromInit m f with
  | none => .ub
  | some lv0 => gloop (forFromLoop m f) body fuel lv0 st

/-! ## `_transform_range_iteration` / `_build_range_step_calculation` -/

structure RangeCfg where
  T : CTy             -- loop type (the C target's type; `long` for an object target)
  C : CTy             -- spanning type of the two bound expressions (the start value of a reversed loop is computed in its promotion)
  constBounds : Bool  -- both bounds are compile-time constants: the compiler computes the reversed start value itself
  cdiv : Bool         -- the `//` of the start value is emitted as C `/` (module directive cdivision=True and no repair)
  reversed : Bool
  fixedU : Bool
  deriving Repr

/-- value of the `bound1` expression of a `reversed(range(a, b, s))` loop with `|s| ≠ 1` (before coercion to the loop type) -/
def revBound (m : Mode) (cfg : RangeCfg) (a b s : Int) : Option Int :=
  let sv : Int := s.natAbs
  if cfg.constBounds then
    some (if s < 0 then a - sv * Int.fdiv (a - b - 1) sv - 1 else a + sv * Int.fdiv (b - a - 1) sv + 1)
  else
    let P := cfg.C.prom
    let dv (x : Int) : Int := if cfg.cdiv || !P.signed then Int.tdiv x sv else Int.fdiv x sv
    if s < 0 then
      (arith m P (a - b)).bind fun t1 =>
      (arith m P (t1 - 1)).bind fun t2 =>
      (arith m P (sv * dv t2)).bind fun t3 =>
      (arith m P (a - t3)).bind fun t4 =>
      arith m P (t4 - 1)
    else
      (arith m P (b - a)).bind fun t1 =>
      (arith m P (t1 - 1)).bind fun t2 =>
      (arith m P (sv * dv t2)).bind fun t3 =>
      (arith m P (a + t3)).bind fun t4 =>
      arith m P (t4 + 1)

/-- C type of an integer literal as Cython writes it (`IntNode.value_as_c_integer_string`: non-negative literals of
    three or more digits in hexadecimal, so `unsigned int` is considered; negative ones as `-` decimal) -/
def litType (v : Int) : CTy :=
  if v < 0 then (if -v ≤ 2147483647 then ⟨32, true⟩ else ⟨64, true⟩)
  else if v ≤ 2147483647 then ⟨32, true⟩
  else if v ≤ 4294967295 then ⟨32, false⟩
  else if v ≤ 9223372036854775807 then ⟨64, true⟩
  else ⟨64, false⟩

/-- the `ForFromStatNode` built for `for target in [reversed](range(a, b, s))`, `s ≠ 0` a constant -/
def rangeForFrom (m : Mode) (cfg : RangeCfg) (a b s : Int) : Option ForFrom :=
  let sv : Int := s.natAbs
  let neg : Bool := decide (s < 0)
  let ty (v : Int) : CTy := if cfg.constBounds then litType v else cfg.C
  if !cfg.reversed then
    some { T := cfg.T, rel1 := if neg then .ge else .le, rel2 := if neg then .gt else .lt,
           B1 := ty a, B2 := ty b, b1 := a, b2 := b, step := sv, fixedU := cfg.fixedU }
  else
    (if sv = 1 then some b else revBound m cfg a b s).map fun B1 =>
      { T := cfg.T, rel1 := if neg then .lt else .gt, rel2 := if neg then .le else .ge,
        B1 := ty B1, B2 := ty a, b1 := B1, b2 := a, step := sv, fixedU := cfg.fixedU }

def rangeLoop {σ : Type} (m : Mode) (cfg : RangeCfg) (a b s : Int) (body : σ → Int → σ × Ctl) (fuel : Nat) (st : σ) : Out σ :=
  match rangeForFrom m cfg a b s with
  | none => .ub
  | some f => forFrom m f body fuel st

/-- what Python does: `for x in [reversed](range(a, b, s))` -/
def pySeq (reversed : Bool) (a b s : Int) : List Int :=
  if reversed then (pyRange a b s).reverse else pyRange a b s

/-! ## `_transform_enumerate_iteration`: the counter temp -/

/-- values assigned to the counter target for `n` items: `target = temp; temp = temp + 1` before each body -/
def enumCounters (m : Mode) (T : CTy) : Int → Nat → Option (List Int)
  | _, 0 => some []
  | c, n + 1 =>
    ((arith m T.prom (c + 1)).map (store T)).bind fun c' =>
    (enumCounters m T c' n).map fun rest => c :: rest

/-! ## the observable test body and the line protocol -/

structure Rec where
  vis : List Int      -- visited values, newest first
  target : Int
  cnt : Nat
  runaway : Bool
  deriving Repr

/-- `out.append(i); n += 1; if n > cap: return runaway; if k == brk: break; if k == cont: continue; [i = 7]` -/
def recBody (brkAt contAt : Int) (modify : Bool) (cap : Nat) (st : Rec) (x : Int) : Rec × Ctl :=
  let k : Int := st.cnt
  let st1 : Rec := { st with vis := x :: st.vis, target := x, cnt := st.cnt + 1 }
  if st1.cnt > cap then ({ st1 with runaway := true }, .brk)
  else if k = brkAt then (st1, .brk)
  else if k = contAt then (st1, .next)
  else if modify then ({ st1 with target := 7 }, .next)
  else (st1, .next)

/-- observations used by the counterexample theorems -/
def Out.isUb {σ : Type} : Out σ → Bool
  | .ub => true
  | _ => false

def Out.visited : Out Rec → Option (List Int)
  | .done st _ => some st.vis.reverse
  | _ => none

def renderRec (st : Rec) (elseRan : Bool) : String :=
  if st.runaway then s!"runaway {intsToStr st.vis.reverse}"
  else s!"ok {intsToStr st.vis.reverse} t={st.target} else={if elseRan then 1 else 0}"

def renderOut : Out Rec → String
  | .done st e => renderRec st e
  | .ub => "ub signedOverflow"
  | .timeout => "timeout"

def parseBool? (s : String) : Option Bool :=
  if s == "1" then some true else if s == "0" then some false else none

def parseMode? (s : String) : Option Mode :=
  if s == "strict" then some .strict else if s == "wrap" then some .wrap else none

def okWidth (w : Nat) : Bool := w == 8 || w == 16 || w == 32 || w == 64

def handle : List String → String
  | ["rangelen", a, b, s] =>
    match a.toInt?, b.toInt?, s.toInt? with
    | some a, some b, some s => if s = 0 then "err ValueError" else s!"ok {rangeLen a b s}"
    | _, _, _ => "bad-op"
  | ["pyrange", rev, a, b, s, brk, cont, md, cap, init] =>
    match parseBool? rev, a.toInt?, b.toInt?, s.toInt?, brk.toInt?, cont.toInt?, parseBool? md, cap.toNat?, init.toInt? with
    | some rev, some a, some b, some s, some brk, some cont, some md, some cap, some init =>
      if s = 0 then "err ValueError" else
      -- only the first cap+2 values can be observed (the body returns after cap+1): never materialise 2^64 values
      let n := min (rangeLen a b s) (cap + 2)
      let xs := if rev then rangeFrom (rangeLast a b s) (-s) n else rangeFrom a s n
      let (st, e) := pyFor (recBody brk cont md cap) xs ⟨[], init, 0, false⟩
      renderRec st e
    | _, _, _, _, _, _, _, _, _ => "bad-op"
  | ["range", m, w, sg, cw, csg, cst, cdv, rev, fx, a, b, s, brk, cont, md, cap, init] =>
    match parseMode? m, w.toNat?, parseBool? sg, cw.toNat?, parseBool? csg, parseBool? cst, parseBool? cdv, parseBool? rev, parseBool? fx with
    | some m, some w, some sg, some cw, some csg, some cst, some cdv, some rev, some fx =>
      match a.toInt?, b.toInt?, s.toInt?, brk.toInt?, cont.toInt?, parseBool? md, cap.toNat?, init.toInt? with
      | some a, some b, some s, some brk, some cont, some md, some cap, some init =>
        let T : CTy := ⟨w, sg⟩
        let C : CTy := ⟨cw, csg⟩
        -- run-time bounds must be values of their declared types, the step literal a value of the arithmetic type
        if !okWidth w || !okWidth cw || s = 0 || !T.inR a || !T.inR b || !T.inR init || !T.prom.inR s.natAbs || s.natAbs > 2147483647 then "bad-op"
        else if !cst && (!C.inR a || !C.inR b || !compat T C) then "bad-op"
        else if cst && (!compat T (litType a) || !compat T (litType b)) then "bad-op"
        else
          let cfg : RangeCfg := { T := T, C := C, constBounds := cst, cdiv := cdv, reversed := rev, fixedU := fx }
          renderOut (rangeLoop m cfg a b s (recBody brk cont md cap) (cap + 2) ⟨[], init, 0, false⟩)
      | _, _, _, _, _, _, _, _ => "bad-op"
    | _, _, _, _, _, _, _, _, _ => "bad-op"
  | ["revbound", m, cw, csg, cst, cdv, a, b, s] =>
    match parseMode? m, cw.toNat?, parseBool? csg, parseBool? cst, parseBool? cdv, a.toInt?, b.toInt?, s.toInt? with
    | some m, some cw, some csg, some cst, some cdv, some a, some b, some s =>
      let C : CTy := ⟨cw, csg⟩
      if !okWidth cw || s = 0 || (!cst && (!C.inR a || !C.inR b)) then "bad-op"
      else match revBound m { T := C, C := C, constBounds := cst, cdiv := cdv, reversed := true, fixedU := false } a b s with
        | some v => s!"ok {v}"
        | none => "ub signedOverflow"
    | _, _, _, _, _, _, _, _ => "bad-op"
  | ["enum", m, w, sg, start, n] =>
    match parseMode? m, w.toNat?, parseBool? sg, start.toInt?, n.toNat? with
    | some m, some w, some sg, some start, some n =>
      let T : CTy := ⟨w, sg⟩
      if !okWidth w || !T.inR start || n > 100000 then "bad-op"
      else match enumCounters m T start n with
        | some l => s!"ok {intsToStr l}"
        | none => "ub signedOverflow"
    | _, _, _, _, _ => "bad-op"
  | _ => "bad-op"

end CyVerif.C14

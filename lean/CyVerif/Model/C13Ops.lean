import CyVerif.Model.C13
/-!
# C13 — list `pop`/`pop(i)`/`append` fast paths over a capacity model, `abs`, `min`/`max`,
`ord`/`chr`, `dict.get`/`dict.pop` decision logic
-/
namespace CyVerif.C13
open CyVerif.C15 (Out pyNorm)

/-! ### lists with capacity -/

/-- a `PyListObject`: the `ob_size` initialised items and `allocated` slots -/
structure LS (α : Type) where
  items : List α
  alloc : Nat
  deriving Repr

/-- `0 ≤ ob_size ≤ allocated` -/
def LS.inv {α} (s : LS α) : Prop := s.items.length ≤ s.alloc

/-- observation of one operation -/
inductive Obs (α : Type) where
  | val (v : α)
  | unit
  | exc (e : String)
  deriving DecidableEq, Repr

/-- result of one modelled step: observation + new state, or C undefined behaviour -/
inductive StepR (α : Type) where
  | done (o : Obs α) (s : LS α)
  | ub (k : String)
  deriving Repr

/-- CPython `list_resize(self, newsize)`: the new value of `allocated` -/
def cpyResize (alloc oldsize newsize : Nat) : Nat :=
  if alloc ≥ newsize ∧ newsize ≥ alloc / 2 then alloc
  else if newsize = 0 then 0
  else
    let na := (newsize + newsize / 8 + 6) / 4 * 4
    if (newsize : Int) - oldsize > (na : Int) - newsize then (newsize + 3) / 4 * 4 else na

/-- CPython 3.12 `list_pop_impl(self, index)` -/
def cpyPop {α} (s : LS α) (i : Int) : StepR α :=
  let n := s.items.length
  if n = 0 then .done (.exc "IndexError") s
  else
    match pyNorm n i with
    | none => .done (.exc "IndexError") s
    | some k =>
      match s.items[k]? with
      | none => .ub "oob"
      | some v =>
        if n - 1 = 0 then .done (.val v) ⟨[], 0⟩            -- _list_clear
        else .done (.val v) ⟨s.items.eraseIdx k, cpyResize s.alloc n (n - 1)⟩

/-- CPython 3.12 `PyList_Append` (`_PyList_AppendTakeRef`) -/
def cpyAppend {α} (s : LS α) (x : α) : StepR α :=
  let n := s.items.length
  if s.alloc > n then .done .unit ⟨s.items ++ [x], s.alloc⟩
  else .done .unit ⟨s.items ++ [x], cpyResize s.alloc n (n + 1)⟩

/-- `memmove(&a[dst], &a[src], n * sizeof(PyObject*))` on the initialised slots, bounds-checked -/
def memmove {α} (a : List α) (dst src n : Nat) : Option (List α) :=
  if src + n ≤ a.length ∧ dst + n ≤ a.length then
    some (a.take dst ++ (a.drop src).take n ++ a.drop (dst + n))
  else none

/-- `__Pyx_PyList_Pop(L)` -/
def pyxPop {α} (s : LS α) : StepR α :=
  let size := s.items.length
  if size > s.alloc / 2 then
    -- Py_SET_SIZE(L, size-1); return PyList_GET_ITEM(L, size-1)
    match s.items[size - 1]? with
    | none => .ub "oob"
    | some v => .done (.val v) ⟨s.items.take (size - 1), s.alloc⟩
  else cpyPop s (-1)

/-- `__Pyx__PyList_PopIndex(L, py_ix, ix)` (`ix` a `Py_ssize_t`) -/
def pyxPopIndex {α} (s : LS α) (ix : Int) : StepR α :=
  let size := s.items.length
  let fast : Option (StepR α) :=
    if size > s.alloc / 2 then
      let cix := if ix < 0 then ix + size else ix
      if 0 ≤ cix ∧ cix < size then          -- __Pyx_is_valid_index: (size_t)cix < (size_t)size
        let c := cix.toNat
        match s.items[c]? with
        | none => some (.ub "oob")
        | some v =>
          -- size -= 1; memmove(&item[cix], &item[cix+1], (size-cix) * sizeof(PyObject*))
          match memmove s.items c (c + 1) (size - 1 - c) with
          | none => some (.ub "oob")
          | some a => some (.done (.val v) ⟨a.take (size - 1), s.alloc⟩)
      else none
    else none
  match fast with
  | some r => r
  | none => cpyPop s ix

/-- `__Pyx_PyList_Append(list, x)` -/
def pyxAppend {α} (s : LS α) (x : α) : StepR α :=
  let len := s.items.length
  if s.alloc > len ∧ len > s.alloc / 2 then
    -- PyList_SET_ITEM(list, len, x): slot `len` must exist
    if len < s.alloc then .done .unit ⟨s.items ++ [x], s.alloc⟩ else .ub "oob"
  else cpyAppend s x

inductive Op (α : Type) where
  | append (x : α)
  | pop
  | popi (i : Int)
  deriving Repr

def pyxStep {α} (s : LS α) : Op α → StepR α
  | .append x => pyxAppend s x
  | .pop => pyxPop s
  | .popi i => pyxPopIndex s i

/-- Python list semantics of one operation -/
def specStep {α} (l : List α) : Op α → Obs α × List α
  | .append x => (.unit, l ++ [x])
  | .pop =>
    match l.getLast? with
    | none => (.exc "IndexError", l)
    | some v => (.val v, l.dropLast)
  | .popi i =>
    match pyNorm l.length i with
    | none => (.exc "IndexError", l)
    | some k =>
      match l[k]? with
      | none => (.exc "IndexError", l)
      | some v => (.val v, l.eraseIdx k)

def specRun {α} (l : List α) : List (Op α) → List (Obs α) × List α
  | [] => ([], l)
  | op :: ops =>
    let (o, l') := specStep l op
    let (os, l'') := specRun l' ops
    (o :: os, l'')

/-- run a history on the Cython helpers; `none` = undefined behaviour somewhere -/
def pyxRun {α} (s : LS α) : List (Op α) → Option (List (Obs α) × LS α)
  | [] => some ([], s)
  | op :: ops =>
    match pyxStep s op with
    | .ub _ => none
    | .done o s' =>
      match pyxRun s' ops with
      | none => none
      | some (os, s'') => some (o :: os, s'')

/-! ### abs of C integers -/

/-- `abs`/`labs`/`llabs` on a signed C integer of width `w` (the strict signatures `int`, `long`,
`long long`); `oc` = directive `overflowcheck` (guard emitted in `SimpleCallNode`) -/
def cAbs (oc : Bool) (w : Nat) (x : Int) : Out Int :=
  if x = -(2 ^ (w - 1)) then (if oc then .err "OverflowError" else .ub "abs(MIN)")
  else .ok (if x < 0 then -x else x)

/-- Python `abs(x)` whose result must be stored in the same signed C type -/
def pyAbsFits (w : Nat) (x : Int) : Out Int :=
  if (x.natAbs : Int) < 2 ^ (w - 1) then .ok x.natAbs else .err "OverflowError"

/-! ### min / max unrolling -/

/-- `_optimise_min_max`: `acc = a0; for x in rest: acc = (x OP acc) ? x : acc`, with the list of
comparisons performed (operands in call order) -/
def mmFold {α} (cmp : α → α → Out Bool) (acc : α) : List α → List (α × α) × Out α
  | [] => ([], .ok acc)
  | x :: xs =>
    match cmp x acc with
    | .ok true => let (t, r) := mmFold cmp x xs; ((x, acc) :: t, r)
    | .ok false => let (t, r) := mmFold cmp acc xs; ((x, acc) :: t, r)
    | .err e => ([(x, acc)], .err e)
    | .ub k => ([(x, acc)], .ub k)

def pyxMinMax {α} (cmp : α → α → Out Bool) : List α → List (α × α) × Out α
  | [] => ([], .err "TypeError")
  | a :: rest => mmFold cmp a rest

/-- CPython `min_max()` (Python/bltinmodule.c), positional-arguments form:
`maxitem = NULL; while (item = next(it)) { if (maxitem == NULL) maxitem = item; else { cmp =
PyObject_RichCompareBool(item, maxitem, op); if (cmp < 0) fail; if (cmp > 0) maxitem = item; } }` -/
def cpyMinMax {α} (cmp : α → α → Out Bool) (args : List α) : List (α × α) × Out α :=
  let rec go (maxitem : Option α) (tr : List (α × α)) : List α → List (α × α) × Out α
    | [] => match maxitem with
            | none => (tr.reverse, .err "TypeError")
            | some m => (tr.reverse, .ok m)
    | item :: it =>
      match maxitem with
      | none => go (some item) tr it
      | some m =>
        match cmp item m with
        | .ok true => go (some item) ((item, m) :: tr) it
        | .ok false => go (some m) ((item, m) :: tr) it
        | .err e => (((item, m) :: tr).reverse, .err e)
        | .ub k => (((item, m) :: tr).reverse, .ub k)
  go none [] args

/-- evaluation of the argument EXPRESSIONS (each a value or a raise) in a given order of
positions; returns the positions evaluated and the values (by position) or the first raise -/
def evalIn {α} (thunks : List (Out α)) : List Nat → List Nat × Out (List (Nat × α))
  | [] => ([], .ok [])
  | i :: is =>
    match thunks[i]? with
    | none => ([], .ub "oob")
    | some (.ok v) =>
      match evalIn thunks is with
      | (lg, .ok vs) => (i :: lg, .ok ((i, v) :: vs))
      | (lg, r) => (i :: lg, r)
    | some (.err e) => ([i], .err e)
    | some (.ub k) => ([i], .ub k)

/-- order in which `_optimise_min_max` evaluates `n ≥ 2` argument expressions:
`fixed = false` (code as it is): positions `1, …, n-1`, then `0`;  `fixed = true`: `0, …, n-1` -/
def mmOrder (fixed : Bool) (n : Nat) : List Nat :=
  if fixed then List.range n else (List.range n).tail ++ [0]

/-! ### ord / chr -/

inductive OrdArg where
  | str (cps : List Nat)
  | bytes (bs : List Nat)
  | bytearray (bs : List Nat)
  | other
  deriving Repr

/-- `__Pyx_PyObject_Ord(c)`; `fixed = false`: a `str` of length ≠ 1 goes through
`__Pyx_PyUnicode_AsPy_UCS4` (ValueError) -/
def pyxOrd (fixed : Bool) : OrdArg → Out Nat
  | .str [c] => .ok c
  | .str _ => if fixed then .err "TypeError" else .err "ValueError"
  | .bytes [b] => .ok b
  | .bytes _ => .err "TypeError"
  | .bytearray [b] => .ok b
  | .bytearray _ => .err "TypeError"
  | .other => .err "TypeError"

/-- CPython `builtin_ord` -/
def pyOrd : OrdArg → Out Nat
  | .str cps => if cps.length = 1 then .ok (cps.headD 0) else .err "TypeError"
  | .bytes bs => if bs.length = 1 then .ok (bs.headD 0) else .err "TypeError"
  | .bytearray bs => if bs.length = 1 then .ok (bs.headD 0) else .err "TypeError"
  | .other => .err "TypeError"

/-- two's-complement reduction of `x` to a signed 32-bit `int` (C cast of a wider integer) -/
def toInt32 (x : Int) : Int := (x + 2 ^ 31) % 2 ^ 32 - 2 ^ 31

/-- `chr(x)` on a C integer argument: `BuiltinFunction('chr', "i", "O", "PyUnicode_FromOrdinal")`
casts the argument to `int`, then `PyUnicode_FromOrdinal` checks `0 ≤ ordinal ≤ 0x10ffff` -/
def pyxChrC (x : Int) : Out Int :=
  let o := toInt32 x
  if o < 0 ∨ o > 1114111 then .err "ValueError" else .ok o

/-- CPython `chr(i)`: `i` is parsed as a C `int` (OverflowError), then range-checked -/
def pyChr (x : Int) : Out Int :=
  if x < -(2 ^ 31) ∨ x > 2 ^ 31 - 1 then .err "OverflowError"
  else if x < 0 ∨ x > 1114111 then .err "ValueError" else .ok x

/-! ### dict helpers: decision logic over the outcome of the hash-table probe -/

/-- outcome of `PyDict_GetItemWithError` / the probe inside `PyDict_Pop`: hashing or `__eq__` may raise -/
inductive Look (α : Type) where
  | found (v : α)
  | missing
  | error (e : String)
  deriving Repr

/-- `__Pyx_PyDict_GetItemDefault(d, key, default)` (CPython branch) -/
def dictGetDefault {α} (l : Look α) (dflt : α) : Out α :=
  match l with
  | .found v => .ok v          -- value = PyDict_GetItemWithError(d, key)
  | .missing => .ok dflt       -- !value && !PyErr_Occurred()
  | .error e => .err e

/-- `__Pyx_PyDict_Pop`, branch `PyDict_Pop` (3.13+): returns (result, key removed?) -/
def dictPopNew {α} (l : Look α) (dflt : Option α) : Out α × Bool :=
  match l with
  | .found v => (.ok v, true)                     -- PyDict_Pop == 1
  | .error e => (.err e, false)                   -- -1, value = NULL
  | .missing =>
    match dflt with
    | some d => (.ok d, false)
    | none => (.err "KeyError", false)

/-- `__Pyx_PyDict_Pop`, branch `_PyDict_Pop(d, key, default)` (CPython < 3.13) and Python `dict.pop` -/
def pyDictPop {α} (l : Look α) (dflt : Option α) : Out α × Bool :=
  match l, dflt with
  | .found v, _ => (.ok v, true)
  | .missing, some d => (.ok d, false)
  | .missing, none => (.err "KeyError", false)
  | .error e, _ => (.err e, false)

/-- Python `dict.get(key, default)` -/
def pyDictGet {α} (l : Look α) (dflt : α) : Out α :=
  match l with
  | .error e => .err e
  | .found v => .ok v
  | .missing => .ok dflt

end CyVerif.C13

import CyVerif.Model.C31
/-!
C31 — reference semantics: PEP 634 as executed by CPython 3.12
(`Python/compile.c: compiler_pattern_*`, `Python/ceval.c: match_keys, match_class`).
-/
namespace CyVerif.C31

/-- value / literal pattern test: `is` for the singletons, `==` otherwise -/
def valueTest (l : Lit) (sing : Bool) (v : Val) (lg : Log) : Bool × Log :=
  if sing then (isv v l, lg) else eqv v l lg

/-- `match_keys`: per key in source order: `seen` check (ValueError), `.get(key, sentinel)` -/
def refKeys (logs : Bool) (kvs : List (Lit × Val)) : List Lit → List Lit → Log → R (List Val)
  | [], _, lg => .ok [] lg
  | k :: ks, seen, lg =>
    if seen.any (fun s => s.pyEq k) then .err .valueError lg
    else match mget logs kvs k lg with
      | (none, lg') => .fail lg'
      | (some x, lg') =>
        match refKeys logs kvs ks (k :: seen) lg' with
        | .ok xs l => .ok (x :: xs) l
        | r => r

/-- `match_class`: positional names then keyword names through `match_class_attr`
    (`seen` set: TypeError on a repeated name; missing attribute: no match). -/
def refAttrs (v : Val) : List (Option Nat) → List (Option Nat) → Log → R (List Val)
  | [], _, lg => .ok [] lg
  | none :: _, _, lg => .err .typeError lg
  | some a :: rest, seen, lg =>
    if seen.contains (some a) then .err .typeError lg
    else match getAttr v a with
      | .missing => .fail lg
      | .raises => .err .valueError lg
      | .found x =>
        match refAttrs v rest (some a :: seen) lg with
        | .ok xs l => .ok (x :: xs) l
        | r => r

def Cls.isBuiltin : Cls → Bool
  | .user _ => false | .nontype => false | _ => true

/-- sub-subjects of a class pattern (positional then keyword), CPython order of checks -/
def refClsSubs (T : Tab) (c : Cls) (npos : Nat) (kwn : List Nat) (v : Val) (lg : Log) : R (List Val) :=
  if c = .nontype then .err .typeError lg
  else if !isInst T v c then .fail lg
  else if npos = 0 then refAttrs v (kwn.map some) [] lg
  else match c with
    | .user u =>
      (match T.margs u with
       | .absent => .err .typeError lg
       | .nontuple => .err .typeError lg
       | .tuple names =>
         if names.length < npos then .err .typeError lg
         else refAttrs v (names.take npos ++ kwn.map some) [] lg)
    | _ =>
      if 1 < npos then .err .typeError lg
      else match refAttrs v (kwn.map some) [] lg with
        | .ok xs l => .ok (v :: xs) l
        | r => r

def starBind (st : Option (Option Nat)) (mid : List Val) : Env :=
  match st with
  | some (some r) => [(r, .list mid)]
  | _ => []

def restBind (rest : Option Nat) (kvs : List (Lit × Val)) (ks : List Lit) : Env :=
  match rest with
  | some r => [(r, .dict (restOf kvs ks))]
  | none => []

/-- `GET_LEN` pre-check of a sequence pattern -/
def seqLenOk (star : Bool) (n np nq : Nat) : Bool :=
  if star then decide (np + nq ≤ n) else n == np + nq

mutual
def ref (T : Tab) : Pat → Val → Log → R Env
  | .lit l, v, lg =>
    let r := valueTest l l.isSingleton v lg
    if r.1 then .ok [] r.2 else .fail r.2
  | .const k, v, lg =>
    let r := valueTest (T.const k) false v lg
    if r.1 then .ok [] r.2 else .fail r.2
  | .cap n, v, lg => .ok [(n, v)] lg
  | .wild, _, lg => .ok [] lg
  | .as p n, v, lg =>
    (match ref T p v lg with
     | .ok e l => .ok (e ++ [(n, v)]) l
     | r => r)
  | .or alts, v, lg => refAlts T alts v lg
  | .seq ps st qs, v, lg =>
    (match seqItems v with
     | none => .fail lg
     | some items =>
       let n := items.length
       if !seqLenOk st.isSome n ps.length qs.length then .fail lg
       else
         match refList T ps (items.take ps.length) lg with
         | .ok e1 l1 =>
           (match refList T qs (items.drop (n - qs.length)) l1 with
            | .ok e2 l2 =>
              .ok (e1 ++ starBind st ((items.drop ps.length).take (n - qs.length - ps.length)) ++ e2) l2
            | r => r)
         | r => r)
  | .map ks ps rest, v, lg =>
    (match mapItems v with
     | none => .fail lg
     | some kvs =>
       if kvs.length < ks.length then .fail lg
       else
         match refKeys (logsGet v) (mapView v) (ks.map (Key.val T)) [] lg with
         | .ok vals l1 =>
           (match refList T ps vals l1 with
            | .ok e l2 => .ok (e ++ restBind rest kvs (ks.map (Key.val T))) l2
            | r => r)
         | .fail l => .fail l
         | .err e l => .err e l)
  | .cls c pos kwn kwp, v, lg =>
    (match refClsSubs T c pos.length kwn v lg with
     | .ok subs l1 =>
       (match refList T pos (subs.take pos.length) l1 with
        | .ok e1 l2 =>
          (match refList T kwp (subs.drop pos.length) l2 with
           | .ok e2 l3 => .ok (e1 ++ e2) l3
           | r => r)
        | r => r)
     | .fail l => .fail l
     | .err e l => .err e l)
/-- sub-patterns against sub-subjects, left to right, stop at the first failure -/
def refList (T : Tab) : List Pat → List Val → Log → R Env
  | [], _, lg => .ok [] lg
  | _ :: _, [], lg => .err .crash lg
  | p :: ps, v :: vs, lg =>
    (match ref T p v lg with
     | .ok e l =>
       (match refList T ps vs l with
        | .ok e2 l2 => .ok (e ++ e2) l2
        | r => r)
     | r => r)
def refAlts (T : Tab) : List Pat → Val → Log → R Env
  | [], _, lg => .fail lg
  | a :: rest, v, lg =>
    (match ref T a v lg with
     | .fail l => refAlts T rest v l
     | r => r)
end

/-- outcome of a whole match statement -/
inductive Outcome where
  | done (sel : Option Nat) (env : Env) (lg : Log)
  | exc (e : Exc) (lg : Log)

/-- cases in order; captures of a case are stored before its guard runs and stay
    stored when the guard is false -/
def refStmt (T : Tab) : List Case → Nat → Val → Env → Log → Outcome
  | [], _, _, acc, lg => .done none acc lg
  | c :: cs, i, v, acc, lg =>
    match ref T c.pat v lg with
    | .fail l => refStmt T cs (i + 1) v acc l
    | .err e l => .exc e l
    | .ok env l =>
      match c.guard with
      | none => .done (some i) (acc ++ env) l
      | some g =>
        if g then .done (some i) (acc ++ env) (l ++ [.guard i])
        else refStmt T cs (i + 1) v (acc ++ env) (l ++ [.guard i])

end CyVerif.C31

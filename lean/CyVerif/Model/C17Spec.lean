import CyVerif.Model.C17Check
/-! C17 — REFERENCE semantics: what a `struct`-module / PEP 3118 format string denotes
(sequence of (kind group, size, offset) and the total size), and what it means for that
layout to equal the C layout of a dtype.  Independent of the checker: two phases
(items, then layout), no pooling, no deferred processing. -/
namespace CyVerif.C17

structure Field where
  group : Char
  size : Nat
  off : Nat
  deriving DecidableEq, Repr

/-- one item of a flat format string -/
inductive Item where
  | ty (mode : Char) (count : Nat) (z : Bool) (c : Char)
  | pad (count : Nat)
  deriving DecidableEq, Repr

/-- phase 1: items of a format string over the flat alphabet (white space, byte-order marks, repeat counts,
    `x`, type codes, `Z` prefix, `:name:`); `none` = not a (little-endian readable) flat format string.
    A repeat count applies to the next code; byte-order marks stay in force until the next mark. -/
def items : Nat → Char → Option Nat → List Char → Option (List Item)
  | 0, _, _, _ => none
  | _ + 1, _, _, [] => some []      -- liberal reading: a trailing repeat count denotes nothing
  | fuel + 1, mode, cnt, c :: cs =>
    if c = ' ' ∨ c = '\r' ∨ c = '\n' then items fuel mode cnt cs
    else if c = '<' ∨ c = '=' then items fuel '=' cnt cs
    else if c = '@' ∨ c = '^' then items fuel c cnt cs
    else if c = 'x' then (items fuel mode none cs).map (Item.pad (cnt.getD 1) :: ·)
    else if c = 'Z' then
      match cs with
      | d :: cs' => if d = 'f' ∨ d = 'd' ∨ d = 'g' then (items fuel mode none cs').map (Item.ty mode (cnt.getD 1) true d :: ·)
                    else none
      | [] => none
    else if c ∈ poolChars then (items fuel mode none cs).map (Item.ty mode (cnt.getD 1) false c :: ·)
    else if c = ':' then (skipName cs).bind (items fuel mode cnt)
    else if isDigit c then
      let (n, rest) := parseNum 0 (c :: cs)
      items fuel mode (some n) rest
    else none

/-- size of a code in a mode; `none`: no standard size (`g` outside native modes) -/
def refSize (mode : Char) (c : Char) (z : Bool) : Option Nat :=
  if mode = '@' ∨ mode = '^' then some (nativeSize c z)
  else if c = 'g' then none else some (standardSize c z)

def emit (g : Char) (size : Nat) : Nat → Nat → List Field
  | 0, _ => []
  | n + 1, off => ⟨g, size, off⟩ :: emit g size n (off + size)

/-- phase 2: the layout (fields with offsets, end offset) of an item list starting at `off` -/
def layout : Nat → List Item → Option (List Field × Nat)
  | off, [] => some ([], off)
  | off, .pad n :: is => layout (off + n) is
  | off, .ty mode n z c :: is =>
    match refSize mode c z with
    | none => none
    | some size =>
      let off := if mode = '@' then alignUp off (alignOf c) else off
      (layout (off + n * size) is).map fun (fs, e) => (emit (groupOf c z) size n off ++ fs, e)

def refLayout (fmt : List Char) : Option (List Field × Nat) :=
  (items (fmt.length + 1) '@' none fmt).bind (layout 0)

/-- kinds are compatible: equal groups and sizes, or same size and one side is a plain `char` -/
def kindOk (f : Field) (s : Slot) : Bool :=
  f.size == s.size && (f.group == s.group || f.group == 'H' || s.group == 'H')

/-- the layout equals the C layout of the dtype: same kinds, sizes and offsets, field by field; a
    two-float struct (`cplx`) is either one complex number or its two halves -/
def matchL : List Field → List Slot → Bool
  | [], [] => true
  | f :: fs, s :: ss =>
    if kindOk f s && f.off == s.off then matchL fs ss
    else if s.cplx then
      match fs with
      | f2 :: fs' =>
        kindOk f (expand s)[0]! && f.off == s.off &&
        kindOk f2 (expand s)[1]! && f2.off == s.off + s.size / 2 && matchL fs' ss
      | [] => false
    else false
  | _, _ => false

/-- REFERENCE verdict: the format denotes exactly the C layout of the dtype (fields), and the exporter's
    item size is the size of the dtype (total size including trailing padding) -/
def refAccept (slots : List Slot) (dtSize itemsize : Nat) (fmt : List Char) : Bool :=
  match refLayout fmt with
  | some (fs, _) => matchL fs slots && itemsize == dtSize
  | none => false

end CyVerif.C17

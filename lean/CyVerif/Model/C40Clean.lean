import CyVerif.Model.C40Eval
/-!
C40 model: the validator `cleanS`.  Given a typing `Γ` of the locals it checks, node by node, that the
typed evaluation cannot differ from the evaluation with object-typed locals: every place where the static
types under `Γ` and under "all objects" differ must be of a shape for which agreement is proved
(`Props/C40.lean: clean_sound`).  It is deliberately conservative; a rejected program is not claimed to
deviate.  The result of `cleanE` is the pair (static type under `Γ`, static type with object locals).
-/
namespace CyVerif.C40

def objEnv : Nat → Ty := fun _ => .obj
def noNt : Nat → Option Ty := fun _ => none

/-- C integer types whose values are plain integers (not `bint`, not characters) -/
def Ty.isPlainCInt : Ty → Bool
  | .clong | .cssize | .cint => true
  | _ => false

def BinOp.floatArith : BinOp → Bool
  | .add | .sub | .mul | .div | .fdiv | .mod => true
  | _ => false

/-- operand usable in double arithmetic on both sides: a double (object on the other side) or an
identically typed C integer -/
def floatCompat (s o : Ty) : Bool :=
  (s = .cdouble ∧ (o = .cdouble ∨ o = .obj)) ∨ (s = o ∧ (s.isPlainCInt ∨ s = .bint))

inductive Why where
  | unbound (v : Nat)          -- a C-typed variable may be read before assignment
  | flowTyped (v : Nat)        -- a name node carries a builtin type its (object) entry does not have
  | unop (op : UnOp) (t : Ty)
  | binop (op : BinOp) (t1 t2 : Ty)
  | cmp (op : CmpOp) (t1 t2 : Ty)
  | call (what : String) (t : Ty)
  | store (t te : Ty)
  | cond (t : Ty)
  | untyped
  deriving Repr

abbrev Chk := Except Why

/-- types whose values are Python ints (or bools) -/
def Ty.intLike : Ty → Bool
  | .pyint | .clong | .cssize | .cint | .bint => true
  | _ => false

/-- operators under which Python ints are closed -/
def BinOp.intClosed : BinOp → Bool
  | .add | .sub | .mul | .fdiv | .mod | .shl | .shr | .band | .bor | .bxor => true
  | _ => false

/-- is the builtin-type claim `ts` of a Python operation on operands of types `sa`, `sb` certainly true? -/
def claimOK (op : BinOp) (inplace : Bool) (sa sb ts : Ty) : Bool :=
  (ts = .obj) ∨
  (ts = .pyint ∧ op.intClosed ∧ sa.intLike ∧ sb.intLike) ∨
  (ts = .pystr ∧ ((op = .add ∧ sa = .pystr ∧ sb = .pystr) ∨ (op = .mul ∧ sa = .pystr ∧ sb.intLike)
                  ∨ (op = .mul ∧ sa.intLike ∧ sb = .pystr))) ∨
  (ts = .cdouble ∧ op = .div ∧ ¬inplace ∧ sa.intLike ∧ sb.intLike) ∨
  (ts = .cdouble ∧ op.floatArith ∧ (sa = .cdouble ∨ sb = .cdouble) ∧
     (sa = .cdouble ∨ sa.intLike) ∧ (sb = .cdouble ∨ sb.intLike))

def binOK (op : BinOp) (inplace lit1 : Bool) (c1 c2 : Option ConstInfo) (a b : Ty × Ty) : Chk (Ty × Ty) :=
  let (sa, oa) := a
  let (sb, ob) := b
  match binType op inplace lit1 (some sa) (some sb) c1 c2, binType op inplace lit1 (some oa) (some ob) c1 c2 with
  | some ts, some to =>
    if sa = oa ∧ sb = ob then .ok (ts, to)
    else if (sa.isPyObject ∨ sb.isPyObject ∨ sa = .ucs4 ∨ sb = .ucs4) ∧
            (oa.isPyObject ∨ ob.isPyObject ∨ oa = .ucs4 ∨ ob = .ucs4) ∧
            (ts = to ∨ (to = .obj ∧ claimOK op inplace sa sb ts)) then .ok (ts, to)
    else if op.floatArith ∧ ¬inplace ∧ floatCompat sa oa ∧ floatCompat sb ob ∧ (sa = .cdouble ∨ sb = .cdouble)
            ∧ ts = .cdouble ∧ to = .obj then .ok (ts, to)
    else .error (.binop op sa sb)
  | _, _ => .error (.binop op sa sb)

def unOK (op : UnOp) (Γ : Nat → Ty) (nt : Nat → Option Ty) (e : Expr) (a : Ty × Ty) : Chk (Ty × Ty) :=
  let (sa, oa) := a
  match aty Γ nt (.un op e), aty objEnv noNt (.un op e) with
  | some ts, some to =>
    if sa = oa then .ok (ts, to)
    else if op = .not then .ok (ts, to)
    else if sa.isPyObject ∧ oa = .obj ∧ (sa = .obj ∨ sa = .pyint) then .ok (ts, to)
    else if (op = .inv ∨ op = .pos) ∧ sa.isPlainCInt ∧ oa = .obj then .ok (ts, to)
    else if (op = .neg ∨ op = .pos) ∧ sa = .cdouble ∧ oa = .obj then .ok (ts, to)
    else .error (.unop op sa)
  | _, _ => .error (.unop op sa)

def cmpOK (op : CmpOp) (Γ : Nat → Ty) (nt : Nat → Option Ty) (e1 e2 : Expr) (a b : Ty × Ty) : Chk (Ty × Ty) :=
  let (sa, oa) := a
  let (sb, ob) := b
  match aty Γ nt (.cmp op e1 e2), aty objEnv noNt (.cmp op e1 e2) with
  | some ts, some to =>
    if sa = oa ∧ sb = ob then .ok (ts, to)
    else if op = .is_ ∨ op = .isnot then
      (if oa.isPyObject ∧ (sa.isPyObject ∨ sa.isPlainCInt ∨ sa = .bint ∨ sa = .cdouble ∨ sa = .ucs4) ∧ e2 = .none
       then .ok (ts, to) else .error (.cmp op sa sb))
    else
      let intLike := fun (t : Ty) => t.isPlainCInt ∨ t = .bint
      if intLike sa ∧ intLike sb ∧ (oa = sa ∨ oa = .obj) ∧ (ob = sb ∨ ob = .obj) then .ok (ts, to)
      else if sa = .cdouble ∧ sb = .cdouble ∧ (oa = sa ∨ oa = .obj) ∧ (ob = sb ∨ ob = .obj) then .ok (ts, to)
      else if ¬cCompare sa sb ∧ ¬cCompare oa ob then .ok (ts, to)
      else .error (.cmp op sa sb)
  | _, _ => .error (.cmp op sa sb)

/-- `S`: locals that are definitely assigned here -/
def cleanE (Γ : Nat → Ty) (nt : Nat → Option Ty) (S : List Nat) : Expr → Chk (Ty × Ty)
  | .int n => .ok (if isLongLiteral n then (.pyint, .pyint) else (.clong, .clong))
  | .flt _ => .ok (.cdouble, .cdouble)
  | .bool _ => .ok (.bint, .bint)
  | .str _ => .ok (.pystr, .pystr)
  | .none => .ok (.obj, .obj)
  | .typed _ => .error .untyped
  | .next _ => .error .untyped
  | .name v id =>
    if v < npar then .ok (.obj, .obj)
    else if (Γ v).isPyObject ∨ S.contains v then
      (if Γ v = .softc then .error .untyped else .ok (nameTy Γ nt v id, .obj))
    else .error (.unbound v)
  | .bin op inplace a b => do
    let ta ← cleanE Γ nt S a
    let tb ← cleanE Γ nt S b
    binOK op inplace (isStrLit a) (constInfo a) (constInfo b) ta tb
  | .un op a => do
    let ta ← cleanE Γ nt S a
    unOK op Γ nt a ta
  | .cmp op a b => do
    let ta ← cleanE Γ nt S a
    let tb ← cleanE Γ nt S b
    cmpOK op Γ nt a b ta tb
  | .call a => do
    let _ ← cleanE Γ nt S a
    pure (.obj, .obj)
  | .len a => do
    let (sa, oa) ← cleanE Γ nt S a
    if sa.isPyObject ∧ oa.isPyObject then pure (.cssize, .cssize) else .error (.call "len" sa)
  | .abs a => do
    let (sa, oa) ← cleanE Γ nt S a
    match absType (some sa), absType (some oa) with
    | some ts, some to =>
      if sa = oa then pure (ts, to)
      else if sa.isPyObject ∧ oa.isPyObject ∧ ts = to then pure (ts, to)
      else if sa = .cdouble ∧ oa = .obj then pure (ts, to)
      else .error (.call "abs" sa)
    | _, _ => .error (.call "abs" sa)
  | .idx a b => do
    let (sa, oa) ← cleanE Γ nt S a
    let (sb, ob) ← cleanE Γ nt S b
    match idxType (some sa) (some sb) (isIntLit b), idxType (some oa) (some ob) (isIntLit b) with
    | some ts, some to =>
      if sa.isPyObject ∧ oa.isPyObject ∧
          (ts = to ∨ (sa = .pystr ∧ (ts = .ucs4 ∨ ts = .pystr) ∧ (to = .obj ∨ to = .pystr ∨ to = .ucs4)))
      then pure (ts, to) else .error (.call "index" sa)
    | _, _ => .error (.call "index" sa)

/-- may a value of static type `te` be stored in a variable of type `t` without changing it? -/
def storeOK (t te : Ty) : Bool :=
  (t.isPyObject ∧ ¬(t = .pyint ∧ te = .ucs4)) ∨ t = te ∨ ((t = .clong ∨ t = .cssize) ∧ te.isPlainCInt)

def condOK (s o : Ty) : Bool := s = o ∨ (s ≠ .ucs4 ∧ o ≠ .ucs4)

def cleanO (Γ : Nat → Ty) (nt : Nat → Option Ty) (S : List Nat) : Option Expr → Chk Unit
  | none => .ok ()
  | some e => do let _ ← cleanE Γ nt S e; pure ()

def interS (a b : List Nat) : List Nat := a.filter b.contains

def cleanS (Γ : Nat → Ty) (nt : Nat → Option Ty) : Stmt → List Nat → Chk (List Nat)
  | .skip, S => .ok S
  | .seq a b, S => do
    let S1 ← cleanS Γ nt a S
    cleanS Γ nt b S1
  | .assign v _ e, S => do
    let (s, _) ← cleanE Γ nt S e
    if storeOK (tyOf Γ v) s then pure (v :: S) else .error (.store (tyOf Γ v) s)
  | .aug v _ id op e, S => do
    let (s, _) ← cleanE Γ nt S (.bin op true (.name v id) e)
    if storeOK (tyOf Γ v) s then pure (v :: S) else .error (.store (tyOf Γ v) s)
  | .ite c a b, S => do
    let (sc, oc) ← cleanE Γ nt S c
    if ¬condOK sc oc then .error (.cond sc) else
    let Sa ← cleanS Γ nt a S
    let Sb ← cleanS Γ nt b S
    pure (interS Sa Sb)
  | .while c body, S => do
    let (sc, oc) ← cleanE Γ nt S c
    if ¬condOK sc oc then .error (.cond sc) else
    let _ ← cleanS Γ nt body S
    pure S
  | .forr v _ a1 a2 a3 body, S => do
    let _ ← cleanE Γ nt S a1
    cleanO Γ nt S a2
    cleanO Γ nt S a3
    match rangeItemTy Γ nt a1 a2 a3, rangeItemTy objEnv noNt a1 a2 a3 with
    | some te, some _ =>
      if (tyOf Γ v).isPyObject ∨ ((tyOf Γ v = .clong ∨ tyOf Γ v = .cssize) ∧ te = .clong) then do
        let _ ← cleanS Γ nt body (v :: S)
        pure S
      else .error (.store (tyOf Γ v) te)
    | _, _ => .error .untyped
  | .forin v _ e body, S => do
    let (s, o) ← cleanE Γ nt S e
    if ¬(s.isPyObject ∧ o.isPyObject ∧ (s = .pystr ∨ o ≠ .pystr)) then .error (.call "iter" s) else
    match idxType (some s) (some .cssize) true, idxType (some o) (some .cssize) true with
    | some te, some _ =>
      if ((tyOf Γ v).isPyObject ∧ ¬(tyOf Γ v = .pyint ∧ te = .ucs4)) ∨ tyOf Γ v = te then do
        let _ ← cleanS Γ nt body (v :: S)
        pure S
      else .error (.store (tyOf Γ v) te)
    | _, _ => .error .untyped
  | .ret e, S => do
    let _ ← cleanE Γ nt S e
    pure S

def clean (Γ : Nat → Ty) (nt : Nat → Option Ty) (p : Stmt) : Bool :=
  match cleanS Γ nt p [] with
  | .ok _ => true
  | .error _ => false

def BinOp.name : BinOp → String
  | .add => "add" | .sub => "sub" | .mul => "mul" | .fdiv => "fdiv" | .mod => "mod" | .pow => "pow" | .div => "div"
  | .shl => "shl" | .shr => "shr" | .band => "and" | .bor => "or" | .bxor => "xor"
def UnOp.name : UnOp → String
  | .neg => "neg" | .pos => "pos" | .inv => "inv" | .not => "not"
def CmpOp.name : CmpOp → String
  | .lt => "lt" | .le => "le" | .eq => "eq" | .ne => "ne" | .gt => "gt" | .ge => "ge" | .is_ => "is" | .isnot => "isnot"

def Why.key : Why → String
  | .unbound _ => "unbound-c-variable"
  | .flowTyped _ => "flow-typed-name"
  | .unop op t => s!"unop-{op.name}-{t.name}".replace " " "_"
  | .binop op t1 t2 => s!"binop-{op.name}-{t1.name}-{t2.name}".replace " " "_"
  | .cmp op t1 t2 => s!"cmp-{op.name}-{t1.name}-{t2.name}".replace " " "_"
  | .call w t => s!"{w}-{t.name}".replace " " "_"
  | .store t te => s!"store-{t.name}-from-{te.name}".replace " " "_"
  | .cond t => s!"cond-{t.name}".replace " " "_"
  | .untyped => "untyped"

end CyVerif.C40

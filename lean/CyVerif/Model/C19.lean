import CyVerif.Model.Util
/-!
Model for property C19, part 1: `Cython/Compiler/Optimize.py: SwitchTransform`
(`extract_conditions`, `extract_in_string_conditions`, `extract_common_conditions`,
`has_duplicate_values`, `visit_IfStatNode`, `visit_BoolBinopNode` / `visit_PrimaryCmpNode` /
`visit_CondExprNode` + `build_simple_switch_statement`) together with the C semantics of the
two forms the compiler can emit:

* the if-chain: every test `x == c` is a C `==`, evaluated after the *usual arithmetic
  conversions* of both operands (C11 6.3.1.8), tests are tried left to right;
* the `switch`: the controlling expression is promoted, every case label is *converted to the
  promoted type of the controlling expression* (C11 6.8.4.2p5; gcc wraps modulo 2^bits).

Three behaviours of the transform exist in two variants each (`Variant`): the variant that
the current source implements is detected by the harness on every run.
-/
namespace CyVerif.C19

/-! ### C integer types (LP64 widths are supplied by the caller; the theorems are width-generic) -/

structure CTy where
  bits : Nat
  sgn : Bool
  deriving DecidableEq, Repr

def CTy.lo (t : CTy) : Int := if t.sgn then -((2 : Int) ^ (t.bits - 1)) else 0
/-- exclusive upper bound -/
def CTy.hiX (t : CTy) : Int := if t.sgn then (2 : Int) ^ (t.bits - 1) else (2 : Int) ^ t.bits
def CTy.has (t : CTy) (v : Int) : Bool := decide (t.lo ≤ v) && decide (v < t.hiX)

/-- conversion of a mathematical value to the type (two's complement wrap) -/
def CTy.wrap (t : CTy) (v : Int) : Int :=
  let m := v % (2 : Int) ^ t.bits
  if t.sgn && decide ((2 : Int) ^ (t.bits - 1) ≤ m) then m - (2 : Int) ^ t.bits else m

def s32 : CTy := ⟨32, true⟩
def u32 : CTy := ⟨32, false⟩
def s64 : CTy := ⟨64, true⟩
def u64 : CTy := ⟨64, false⟩

/-- integer promotion -/
def CTy.promote (t : CTy) : CTy := if t.bits < 32 then s32 else t

/-- usual arithmetic conversions on two promoted types -/
def uac (a b : CTy) : CTy :=
  if a.bits = b.bits then ⟨a.bits, a.sgn && b.sgn⟩
  else if a.bits < b.bits then b else a

/-- C `x == c` with `x : tx`, `c : tc` -/
def cEq (tx : CTy) (x : Int) (tc : CTy) (c : Int) : Bool :=
  let T := uac tx.promote tc.promote
  T.wrap x == T.wrap c

/-- `switch (x) { case c: … }` : the label is converted to the promoted type of `x` -/
def swEq (tx : CTy) (x : Int) (c : Int) : Bool := tx.promote.wrap c == x

/-! ### integer literals as emitted into the C file -/

structure CLit where
  neg : Bool
  mag : Nat
  u : Bool     -- suffix U
  l : Bool     -- suffix L or LL (both 64 bit on LP64)
  deriving DecidableEq, Repr

/-- C11 6.4.4.1 on LP64 (magnitudes the generator can produce: `< 2^63` unless `U`) -/
def CLit.ty (c : CLit) : CTy :=
  if c.u then (if !c.l && decide (c.mag < 2 ^ 32) then u32 else u64)
  else if c.l then s64
  else if c.mag < 2 ^ 31 then s32 else s64

/-- value: unary minus is applied *in the type of the literal* -/
def CLit.val (c : CLit) : Int := c.ty.wrap (if c.neg then -(c.mag : Int) else c.mag)

/-! ### constants as written in the Cython source -/

inductive Const where
  /-- integer literal: sign, magnitude, written in hex, suffix `U`, longness 0/1/2 (`''`,`L`,`LL`) -/
  | int (neg : Bool) (mag : Nat) (hex : Bool) (u : Bool) (l : Nat)
  | bool (b : Bool)
  /-- character constant (`c'a'`, `b'a'`, `'a'`) compared with a char-like subject -/
  | chr (code : Nat)
  /-- one character of the byte string literal in `x in b'…'` -/
  | bchr (code : Nat)
  /-- integral float literal `1.0` -/
  | flt (v : Int)
  /-- enum member with a value known to Cython; `own` = member of the subject's own enum type -/
  | enum (id : Nat) (v : Int) (own : Bool)
  /-- extern named constant, value unknown to Cython -/
  | ext (id : Nat)
  deriving DecidableEq, Repr

/-- Python value that the compiler attributes to the constant -/
def Const.pyval (ext : Nat → Int) : Const → Int
  | .int neg mag _ _ _ => if neg then -(mag : Int) else mag
  | .bool b => if b then 1 else 0
  | .chr c => c
  | .bchr c => c
  | .flt v => v
  | .enum _ v _ => v
  | .ext i => ext i

/-- `Parsing.p_int_literal` (language level 3: every suffix makes a C literal) +
`IntNode.find_suitable_type_for_value`: an unsuffixed literal is a Python object unless its magnitude
fits 32 bits (signed) -/
def Const.isPy : Const → Bool
  | .int neg mag _ u l =>
      if neg then !(u || l == 2 || decide (mag ≤ 2 ^ 31))      -- the folded `-<literal>` is no longer marked as C literal
      else !(u || decide (l ≥ 1) || decide (mag < 2 ^ 31))
  | _ => false

/-- all hex digits of `n` are decimal digits (`value[2:].isdigit()`) -/
def hexDigitsDecimal : Nat → Nat → Bool
  | 0, _ => true
  | fuel + 1, n => if n < 16 then decide (n < 10) else decide (n % 16 < 10) && hexDigitsDecimal fuel (n / 16)

/-- `ExprNodes.unop_node` + `IntNode.value_as_c_integer_string` + `get_constant_c_result_code`: suffix of the
emitted literal.  `-<literal>` is rebuilt by the parser as `str(value)` (decimal) up to 10^13 and as `hex(value)`
above; a negative hex spelling is printed in decimal if all its digits are decimal digits.  A negative literal
without suffix that is printed in decimal gets `L`/`LL` from its Cython type (always `long` or wider after the
coercion to the common type). -/
def Const.lit : Const → CLit
  | .int neg mag _ u l =>
      let decimalOut := decide (mag ≤ 10 ^ 13) || hexDigitsDecimal 64 mag
      let autoL := neg && !u && l == 0 && decimalOut && decide (mag ≠ 0)
      ⟨neg, mag, u, decide (l ≥ 1) || autoL⟩
  | .bool b => ⟨false, if b then 1 else 0, false, false⟩
  | .chr c => ⟨false, c, false, false⟩
  | .bchr c => ⟨false, c, false, false⟩
  | .flt v => ⟨decide (v < 0), v.natAbs, false, false⟩
  | .enum _ v _ => ⟨decide (v < 0), v.natAbs, false, false⟩
  | .ext _ => ⟨false, 0, false, false⟩

/-- C type of the label -/
def Const.cty : Const → CTy
  | .ext _ => s32
  | c => c.lit.ty

/-- C value of the label -/
def Const.cval (ext : Nat → Int) : Const → Int
  | .ext i => ext i
  | c => c.lit.val

/-- `cond.type.is_int or cond.type.is_enum` -/
def Const.isIntTyped : Const → Bool
  | .flt _ => false
  | _ => true

/-! ### the transform -/

/-- which of the two behaviours the source implements at three sites -/
structure Variant where
  /-- `extract_conditions`: `and` merges only `!=` tests (repaired) / also `==` tests (as found) -/
  andFix : Bool
  /-- `extract_common_conditions`: constants must be representable in the switch type -/
  rangeGuard : Bool
  /-- `extract_in_string_conditions`: byte characters are keyed by their integer value -/
  bchrInt : Bool
  deriving DecidableEq, Repr

/-- kind of the variable a test is about -/
inductive VarKind where
  /-- C integer / enum: C type, and the value range the range guard assumes for its promoted type -/
  | cint (ty : CTy) (glo ghi : Int) (isEnum : Bool)
  | dbl
  | obj
  deriving DecidableEq, Repr

inductive Cond where
  /-- `v == c` / `v != c` (either operand order) -/
  | cmp (ne : Bool) (v : Nat) (c : Const)
  /-- `v in 'chars'` / `v not in b'chars'` with a string literal -/
  | inStr (notin : Bool) (v : Nat) (chars : List Nat) (bytes : Bool)
  | bin (isAnd : Bool) (a b : Cond)
  | not (a : Cond)
  /-- any other test -/
  | other (k : Nat)
  deriving Repr

/-- key under which `has_duplicate_values` remembers a value (Python `set` semantics) -/
inductive Key where
  | int (v : Int)
  | bytes (code : Nat)
  | name (id : Nat)
  deriving DecidableEq, Repr

def Const.key (V : Variant) : Const → Key
  | .bchr c => if V.bchrInt then .int c else .bytes c
  | .ext i => .name i
  | c => .int (c.pyval fun _ => 0)

/-- `has_duplicate_values` -/
def hasDupFrom (V : Variant) : List Key → List Const → Bool
  | _, [] => false
  | seen, c :: rest => if seen.contains (c.key V) then true else hasDupFrom V (c.key V :: seen) rest

def hasDup (V : Variant) (cs : List Const) : Bool := hasDupFrom V [] cs

/-- insertion into a sorted duplicate-free list (`sorted(set(...))`) -/
def insertSorted (x : Nat) : List Nat → List Nat
  | [] => [x]
  | y :: ys => if x < y then x :: y :: ys else if x = y then y :: ys else y :: insertSorted x ys

def sortDedup (xs : List Nat) : List Nat := xs.foldr insertSorted []

/-- `extract_in_string_conditions` -/
def strConsts (chars : List Nat) (bytes : Bool) : List Const :=
  (sortDedup chars).map fun c => if bytes then .bchr c else .chr c

def isCInt : VarKind → Bool
  | .cint .. => true
  | _ => false

/-- `extract_conditions` -/
def extract (V : Variant) (vk : Nat → VarKind) : Cond → Bool → Option (Bool × Nat × List Const)
  | .cmp ne v c, allowNot =>
      if vk v == .obj || c.isPy then none          -- is_python_comparison()
      else if ne && !allowNot then none
      else some (ne, v, [c])
  | .inStr notin v chars bytes, allowNot =>
      if isCInt (vk v) then
        if notin && !allowNot then none else some (notin, v, strConsts chars bytes)
      else none
  | .bin isAnd a b, allowNot =>
      if !isAnd || allowNot then
        match extract V vk a isAnd, extract V vk b isAnd with
        | some (n1, t1, c1), some (n2, t2, c2) =>
            if n1 == n2 && t1 == t2 then
              if (if V.andFix then n1 == isAnd else (!n1 || isAnd)) then some (n1, t1, c1 ++ c2) else none
            else none
        | _, _ => none
      else none
  | .not _, _ => none
  | .other _, _ => none

/-- repaired `is_safe_case_value` -/
def safeValue (V : Variant) (vk : VarKind) (c : Const) : Bool :=
  match vk with
  | .cint _ glo ghi isEnum =>
      match c with
      | .ext _ => true
      | .enum _ v own => (isEnum && own) || (decide (glo ≤ v) && decide (v ≤ ghi))
      | .int neg mag _ u _ =>
          let v : Int := if neg then -(mag : Int) else mag
          !(neg && u && decide (mag ≠ 0)) && decide (glo ≤ v) && decide (v ≤ ghi)
      | .bchr code => V.bchrInt && decide (glo ≤ (code : Int)) && decide ((code : Int) ≤ ghi)
      | c => decide (glo ≤ c.pyval fun _ => 0) && decide (c.pyval (fun _ => 0) ≤ ghi)
  | _ => false

/-- `extract_common_conditions` -/
def extractCommon (V : Variant) (vk : Nat → VarKind) (common : Option Nat) (c : Cond) (allowNot : Bool) :
    Option (Bool × Nat × List Const) :=
  match extract V vk c allowNot with
  | none => none
  | some (ni, v, cs) =>
      if (match common with | some w => w != v | none => false) then none
      else if !isCInt (vk v) || cs.any (fun c => !c.isIntTyped) then none
      else if V.rangeGuard && cs.any (fun c => !safeValue V (vk v) c) then none
      else some (ni, v, cs)

/-- transformed tests: `sw` is the result of `build_simple_switch_statement` -/
inductive CondT where
  | cmp (ne : Bool) (v : Nat) (c : Const)
  | inStr (notin : Bool) (v : Nat) (chars : List Nat) (bytes : Bool)
  | bin (isAnd : Bool) (a b : CondT)
  | not (a : CondT)
  | other (k : Nat)
  | sw (notIn : Bool) (v : Nat) (labels : List Const)
  deriving Repr

/-- no transformation -/
def embed : Cond → CondT
  | .cmp ne v c => .cmp ne v c
  | .inStr notin v chars bytes => .inStr notin v chars bytes
  | .bin isAnd a b => .bin isAnd (embed a) (embed b)
  | .not a => .not (embed a)
  | .other k => .other k

/-- `visit_BoolBinopNode` / `visit_PrimaryCmpNode` (the node itself, else its children) -/
def xformE (V : Variant) (vk : Nat → VarKind) : Cond → CondT
  | .cmp ne v c => .cmp ne v c      -- a single value never makes a switch (`len(conditions) < 2`)
  | .inStr notin v chars bytes =>
      match extractCommon V vk none (.inStr notin v chars bytes) true with
      | some (ni, w, cs) => if cs.length < 2 || hasDup V cs then .inStr notin v chars bytes else .sw ni w cs
      | none => .inStr notin v chars bytes
  | .bin isAnd a b =>
      match extractCommon V vk none (.bin isAnd a b) true with
      | some (ni, w, cs) =>
          if cs.length < 2 || hasDup V cs then .bin isAnd (xformE V vk a) (xformE V vk b) else .sw ni w cs
      | none => .bin isAnd (xformE V vk a) (xformE V vk b)
  | .not a => .not (xformE V vk a)
  | .other k => .other k

structure IfStat where
  clauses : List (Cond × Nat)     -- test, label of the body
  els : Option Nat
  deriving Repr

inductive StatT where
  | ifs (clauses : List (CondT × Nat)) (els : Option Nat)
  | switch (v : Nat) (cases : List (List Const × Nat)) (els : Option Nat)
  deriving Repr

/-- the loop over `node.if_clauses` in `visit_IfStatNode` -/
def collect (V : Variant) (vk : Nat → VarKind) : Option Nat → List (Cond × Nat) →
    Option (Option Nat × List (List Const × Nat))
  | common, [] => some (common, [])
  | common, (c, body) :: rest =>
      match extractCommon V vk common c false with
      | none => none
      | some (_, v, cs) =>
          match collect V vk (some v) rest with
          | none => none
          | some (w, cases) => some (w, (cs, body) :: cases)

/-- `visit_IfStatNode` -/
def xformIf (V : Variant) (useSwitch : Bool) (vk : Nat → VarKind) (s : IfStat) : StatT :=
  let plain := StatT.ifs (s.clauses.map fun (c, b) => (xformE V vk c, b)) s.els
  if !useSwitch then .ifs (s.clauses.map fun (c, b) => (embed c, b)) s.els
  else
    match collect V vk none s.clauses with
    | some (some v, cases) =>
        let values := cases.flatMap (·.1)
        if values.length < 2 || hasDup V values then plain else .switch v cases s.els
    | _ => plain

/-! ### semantics -/

structure Env where
  val : Nat → Int       -- value of variable v
  oth : Nat → Bool      -- truth of an opaque test
  ext : Nat → Int       -- C value of an extern constant

/-- reference: the test `v == c` as the if-chain evaluates it -/
def eqSem (vk : Nat → VarKind) (env : Env) (v : Nat) (c : Const) : Bool :=
  match vk v with
  | .cint ty _ _ _ =>
      if c.isPy || !c.isIntTyped then env.val v == c.pyval env.ext   -- Python / C double comparison
      else cEq ty (env.val v) c.cty (c.cval env.ext)
  | _ => env.val v == c.pyval env.ext

/-- what CPython computes for the same source with Python integers -/
def eqPy (env : Env) (v : Nat) (c : Const) : Bool := env.val v == c.pyval env.ext

def evalC (vk : Nat → VarKind) (env : Env) : Cond → Bool
  | .cmp ne v c => eqSem vk env v c != ne
  | .inStr notin v chars bytes =>
      (chars.any fun ch => eqSem vk env v (if bytes then .bchr ch else .chr ch)) != notin
  | .bin isAnd a b => if isAnd then evalC vk env a && evalC vk env b else evalC vk env a || evalC vk env b
  | .not a => !evalC vk env a
  | .other k => env.oth k

def evalPy (env : Env) : Cond → Bool
  | .cmp ne v c => eqPy env v c != ne
  | .inStr notin v chars _ => (chars.any fun ch => env.val v == (ch : Int)) != notin
  | .bin isAnd a b => if isAnd then evalPy env a && evalPy env b else evalPy env a || evalPy env b
  | .not a => !evalPy env a
  | .other k => env.oth k

/-- does the switch on `v` select a case with these labels? -/
def swAny (vk : Nat → VarKind) (env : Env) (v : Nat) (labels : List Const) : Bool :=
  match vk v with
  | .cint ty _ _ _ => labels.any fun c => swEq ty (env.val v) (c.cval env.ext)
  | _ => false

def evalT (vk : Nat → VarKind) (env : Env) : CondT → Bool
  | .cmp ne v c => eqSem vk env v c != ne
  | .inStr notin v chars bytes =>
      (chars.any fun ch => eqSem vk env v (if bytes then .bchr ch else .chr ch)) != notin
  | .bin isAnd a b => if isAnd then evalT vk env a && evalT vk env b else evalT vk env a || evalT vk env b
  | .not a => !evalT vk env a
  | .other k => env.oth k
  | .sw notIn v labels => swAny vk env v labels != notIn

/-- first arm of an if-chain whose test holds -/
def firstArm {α} (ev : α → Bool) : List (α × Nat) → Option Nat → Option Nat
  | [], els => els
  | (c, b) :: rest, els => if ev c then some b else firstArm ev rest els

def runIf (vk : Nat → VarKind) (env : Env) (s : IfStat) : Option Nat :=
  firstArm (evalC vk env) s.clauses s.els

def runPy (env : Env) (s : IfStat) : Option Nat := firstArm (evalPy env) s.clauses s.els

def runT (vk : Nat → VarKind) (env : Env) : StatT → Option Nat
  | .ifs clauses els => firstArm (evalT vk env) clauses els
  | .switch v cases els => firstArm (swAny vk env v) cases els

/-- the C values of all case labels of a switch are pairwise distinct in the promoted type
(otherwise the C compiler rejects the file) -/
def labelsDistinct (ty : CTy) (ext : Nat → Int) : List Const → Bool
  | [] => true
  | c :: rest => !(rest.any fun d => ty.promote.wrap (c.cval ext) == ty.promote.wrap (d.cval ext))
                 && labelsDistinct ty ext rest

/-- every switch created inside a transformed test has pairwise distinct labels -/
def allSwDistinct (vk : Nat → VarKind) (ext : Nat → Int) : CondT → Bool
  | .sw _ v labels =>
      (match vk v with
       | .cint ty _ _ _ => labelsDistinct ty ext labels
       | _ => false)
  | .bin _ a b => allSwDistinct vk ext a && allSwDistinct vk ext b
  | .not a => allSwDistinct vk ext a
  | _ => true

end CyVerif.C19

import CyVerif.Model.C02
/-!
Model of `Cython/Utility/Optimize.c`, section `PyLongCompare`
(`__Pyx_PyLong_[Bool]{Eq,Ne}{ObjC,CObj}`): identity shortcut, sign tests, the unrolled digit comparison
(`{{for _size in range(4, 0, -1)}}`), the `double` comparison for exact floats and the rich-compare fallback.
Both operand orders generate the same code up to the argument order of the fallback.
-/
namespace CyVerif.C02
open CyVerif.C05 (Plat CTy cast two E PyLong)

inductive CmpOp where
  | eq | ne
  deriving DecidableEq, Repr

/-- `return_compare(lhs, rhs, c_op)` for two C integers -/
def retCompare (op : CmpOp) (lhs rhs : Int) : Out :=
  match op with
  | .eq => .bool (lhs = rhs)
  | .ne => .bool (lhs ≠ rhs)

/-- "definitely unequal": `return_false if op == 'Eq' else return_true` -/
def retUnequal (op : CmpOp) : Out := .bool (op = .ne)

/-- `digits[i]` of an object with `ds.length` digits (`ob_digit[0]` always exists). -/
def digitAt (ds : List Nat) (i : Nat) : E Nat :=
  if h : i < ds.length then .ok ds[i]
  else if i = 0 then .ok 0 else .error "digit-index-out-of-bounds"

/-- `(digits[i] != ((uintval >> (i * PyLong_SHIFT)) & PyLong_MASK))` for `i = lo … hi`, joined with the
non-short-circuit `|`. -/
def digitDiffs (S : Nat) (ds : List Nat) (u : Nat) : Nat → Nat → E Bool
  | _, 0 => .ok false
  | i, n + 1 => do
    let d ← digitAt ds i
    let rest ← digitDiffs S ds u (i + 1) n
    pure (decide (d ≠ (u >>> (i * S)) % 2 ^ S) || rest)

/-- The unrolled loop over `_size`; returns `unequal`. -/
def cmpChain (P : Plat) (ds : List Nat) (u : Nat) : List Nat → E Bool
  | [] =>
    -- `unequal = (size != 1) || (((unsigned long) digits[0]) != (uintval & (unsigned long) PyLong_MASK));`
    if ds.length ≠ 1 then .ok true else do
      let d ← digitAt ds 0
      pure (decide (d ≠ u % 2 ^ P.shift))
  | k :: ks =>
    -- `#if PyLong_SHIFT * _size < SIZEOF_LONG*8` / `if (uintval >> (PyLong_SHIFT * _size))`
    if P.shift * k < 8 * P.longBytes ∧ u >>> (P.shift * k) ≠ 0 then
      if ds.length ≠ k + 1 then .ok true else digitDiffs P.shift ds u 0 (k + 1)
    else cmpChain P ds u ks

/-- `#if CYTHON_USE_PYLONG_INTERNALS if (likely(PyLong_CheckExact(pyval))) { … }` -/
def compareLong (P : Plat) (op : CmpOp) (p : PyLong) (c : Int) : Out :=
  if c = 0 then retCompare op (if isZero p then 1 else 0) 1
  else
    let signs : Option Out :=
      if c < 0 then (if p.neg = false then some (retUnequal op) else none)     -- `__Pyx_PyLong_IsNonNeg`
      else (if p.neg = true ∧ !p.digits.isEmpty then some (retUnequal op) else none)   -- `__Pyx_PyLong_IsNeg`
    match signs with
    | some o => o
    | none => ofE (do
      let intval ← if c < 0 then C05.neg P.tLong c else pure c
      let u := (cast P.tULong intval).toNat
      let unequal ← cmpChain P p.digits u [4, 3, 2, 1]
      pure (retCompare op (if unequal then 1 else 0) 0))

/-- `__Pyx_PyLong_[Bool]{{op}}{{order}}(op1, op2, intval, inplace)`; `same` is `op1 == op2` (pointer identity). -/
def compare (P : Plat) (cfg : Cfg) (op : CmpOp) (same : Bool) (x : Obj) (c : Int) : Out :=
  if same then .bool (op = .eq)
  else match x with
    | .long p => if cfg.internals then compareLong P op p c else .fallback "richcompare"
    | .float f =>
      -- `(double)a == (double)b`: `(double)intval` is exact up to 2^53; beyond that the model does not vouch
      if c.natAbs ≤ 2 ^ 53 then
        let equal : Bool := match f with | .int v => v = c | _ => false
        .bool (if op = .eq then equal else !equal)
      else .ub "int-to-double-conversion-inexact"
    | .other => .fallback "richcompare"

end CyVerif.C02

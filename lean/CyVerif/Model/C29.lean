import CyVerif.Model.Util
/-! # C29 — automatic pickling of extension types

Model of `AnalyseDeclarationsTransform._inject_pickle_methods` (Cython/Compiler/ParseTreeTransforms.py):
which cdef classes get `__reduce_cython__` / `__setstate_cython__`, the member list over the inheritance
chain (sorted by name), the layout checksum, the generated `__reduce_cython__`, `__pyx_unpickle_<C>` and
`__pyx_unpickle_<C>__set_state`, and `__Pyx_CheckUnpickleChecksum` / `__Pyx_UpdateUnpickledDict`
(Cython/Utility/ExtensionTypes.c).  The code that EXISTS is modelled: `char*` and `char[n]` members are
accepted by the decision although they do not survive (see `Cfg`). -/
namespace CyVerif.C29

/-- Which variant of the decision the source implements (detected by the harness on every run). -/
structure Cfg where
  /-- pointer-typed members (`char*`: convertible both ways) are treated as unpicklable -/
  ptrRefused : Bool
  /-- `char[n]` members are pickled as exactly `n` bytes (`self.a[:n]`) instead of as a C string -/
  charArrExact : Bool
  deriving DecidableEq, Repr

/-- Type classes of attributes, as far as the generator distinguishes them. -/
inductive Ty where
  | obj                                   -- `cdef object x`
  | typed (t : String)                    -- `cdef list x`, `cdef SomeExtType x`: None or an instance of `t`
  | cint (bits : Nat) (signed : Bool)     -- C integer / enum
  | bint
  | cfloat                                -- float / double
  | cstruct (n : Nat)                     -- struct of `n` C ints (convertible both ways)
  | carr (n : Nat)                        -- `int[n]`
  | structNC                              -- struct containing a pointer: not convertible
  | ptr                                   -- `int*`, `void*`, function pointer: not convertible
  | charptr                               -- `char*`: convertible both ways (bytes)
  | chararr (n : Nat)                     -- `char[n]`
  | memview                               -- typed memoryview `double[:]`
  deriving DecidableEq, Repr

def Ty.isPy : Ty → Bool
  | .obj | .typed _ => true
  | _ => false

/-- `can_coerce_to_pyobject ∧ can_coerce_from_pyobject` -/
def Ty.convertible : Ty → Bool
  | .structNC | .ptr => false
  | _ => true

def Ty.isStruct : Ty → Bool
  | .cstruct _ | .structNC => true
  | _ => false

def Ty.isPtr : Ty → Bool
  | .ptr | .charptr => true
  | _ => false

/-- One class of the inheritance chain as the transform sees it. -/
structure ClassD where
  hasCinit : Bool
  hasReduce : Bool                  -- `__reduce__` or `__reduce_ex__` found by `scope.lookup`
  vars : List (String × Ty)         -- `scope.var_entries` in declaration order (may contain `__dict__`, `__weakref__`)
  deriving DecidableEq, Repr

structure Klass where
  autoPickle : Option Bool          -- directive `auto_pickle`: True / False / None
  chain : List ClassD               -- the class itself, then its base, the base's base, …
  deriving DecidableEq, Repr

def special (n : String) : Bool := n == "__weakref__" || n == "__dict__"

/-- `all_members` before sorting: own members, then the bases' (loop `while cls is not None`). -/
def rawMembers (chain : List ClassD) : List (String × Ty) :=
  chain.flatMap fun c => c.vars.filter fun e => !special e.1

def nameLe (a b : String × Ty) : Bool := decide (a.1 ≤ b.1)

/-- `all_members.sort(key=lambda e: e.name)` (code-point order, stable). -/
def members (K : Klass) : List (String × Ty) := (rawMembers K.chain).mergeSort nameLe

def memberNames (K : Klass) : List String := (members K).map (·.1)

inductive Refusal where
  | cinit
  | nonPy (names : List String)
  | structs (names : List String)
  deriving DecidableEq, Repr

inductive Decision where
  | nothing                                   -- no pickle methods injected
  | refuse (why : Refusal) (compileError : Bool)  -- `__reduce_cython__` raising TypeError (+ compile error if forced)
  | generate (ms : List (String × Ty))
  deriving DecidableEq, Repr

def nonPyOf (cfg : Cfg) (ms : List (String × Ty)) : List (String × Ty) :=
  ms.filter fun e => !e.2.isPy && (!e.2.convertible || (cfg.ptrRefused && e.2.isPtr))

/-- `visit_CClassDefNode` guard + `_inject_pickle_methods` up to the choice of the generated code. -/
def decide' (cfg : Cfg) (K : Klass) : Decision :=
  if (K.chain.head?.map (·.hasReduce)).getD false then .nothing
  else if K.autoPickle == some false then .nothing
  else if K.chain.any (·.hasReduce) then .nothing
  else
    let ms := members K
    let forced := K.autoPickle == some true
    let cinit := K.chain.any (·.hasCinit)
    let nonPy := nonPyOf cfg ms
    let structs := ms.filter (·.2.isStruct)
    if cinit then .refuse .cinit forced
    else if !nonPy.isEmpty then .refuse (.nonPy (nonPy.map (·.1))) forced
    else if !structs.isEmpty && !forced then .refuse (.structs (structs.map (·.1))) forced
    else .generate ms

/-! ### values -/

/-- Values stored in an instance `__dict__` (opaque references carry a type tag and an identity). -/
inductive Atom where
  | none | int (i : Int) | str (s : String) | ref (tag : String) (id : Nat)
  deriving DecidableEq, Repr

/-- Python values that occur in a state tuple.  `ref tag id` is any other object, identified by its
identity (`id = 0` is the pickled instance itself: a reference cycle). -/
inductive PyVal where
  | none | int (i : Int) | bool (b : Bool) | float (bits : Nat) | str (s : String)
  | ref (tag : String) (id : Nat)
  | sdict (fs : List Int)             -- dict image of a C struct (all fields present)
  | ilist (xs : List Int)             -- list image of `int[n]`
  | bytes (bs : List Nat)
  | dict (kv : List (String × Atom))  -- an instance `__dict__`
  deriving DecidableEq, Repr

/-- C-level content of one attribute slot. -/
inductive CVal where
  | py (v : PyVal)                    -- object slots
  | int (i : Int) | bit (b : Bool) | flt (bits : Nat)
  | struct (fs : List Int) | arr (xs : List Int)
  | nullp | cstr (bs : List Nat) | dangling     -- `char*`: NULL / valid C string / pointer into a freed bytes object
  | chars (bs : List Nat)             -- `char[n]`
  | mvNone | mv (id : Nat)            -- memoryview slice: uninitialised / view of buffer `id`
  deriving DecidableEq, Repr

structure Obj where
  tname : String                              -- runtime type (a Python subclass has its own name)
  slots : List (String × CVal)                -- C attributes, layout order
  dict : Option (List (String × Atom))        -- `none`: the type has no `__dict__`
  deriving DecidableEq, Repr

def intRange (bits : Nat) (signed : Bool) (i : Int) : Bool :=
  if signed then decide (-(2 ^ (bits - 1) : Int) ≤ i ∧ i < 2 ^ (bits - 1)) else decide (0 ≤ i ∧ i < 2 ^ bits)

def tagOf : PyVal → String
  | .none => "NoneType" | .int _ => "int" | .bool _ => "bool" | .float _ => "float" | .str _ => "str"
  | .ref t _ => t | .sdict _ => "dict" | .ilist _ => "list" | .bytes _ => "bytes" | .dict _ => "dict"

/-- A slot content is a legal content for the declared type. -/
def wtVal : Ty → CVal → Bool
  | .obj, .py _ => true
  | .typed t, .py v => v == .none || tagOf v == t
  | .cint b s, .int i => intRange b s i
  | .bint, .bit _ => true
  | .cfloat, .flt _ => true
  | .cstruct n, .struct fs => fs.length == n
  | .carr n, .arr xs => xs.length == n
  | .charptr, .nullp | .charptr, .cstr _ | .charptr, .dangling => true
  | .chararr n, .chars bs => bs.length == n
  | .memview, .mvNone | .memview, .mv _ => true
  | _, _ => false

def defaultVal : Ty → CVal
  | .obj | .typed _ => .py .none
  | .cint _ _ => .int 0
  | .bint => .bit false
  | .cfloat => .flt 0
  | .cstruct n => .struct (List.replicate n 0)
  | .carr n => .arr (List.replicate n 0)
  | .structNC | .ptr | .charptr => .nullp
  | .chararr n => .chars (List.replicate n 0)
  | .memview => .mvNone

/-- Attribute read `self.x` coerced to a Python object.  `ub` outcomes are prefixed `ub:`. -/
def toPy (cfg : Cfg) : Ty → CVal → Res PyVal
  | _, .py v => .ok v
  | _, .int i => .ok (.int i)
  | _, .bit b => .ok (.bool b)
  | _, .flt x => .ok (.float x)
  | _, .struct fs => .ok (.sdict fs)
  | _, .arr xs => .ok (.ilist xs)
  | _, .nullp => .err "ub:null-deref"                 -- strlen(NULL)
  | _, .cstr bs => .ok (.bytes bs)
  | _, .dangling => .err "ub:use-after-free"
  | _, .chars bs =>
    if cfg.charArrExact then .ok (.bytes bs)
    else if bs.contains 0 then .ok (.bytes (bs.takeWhile (· ≠ 0)))   -- C-string conversion
    else .err "ub:read-past-array"
  | _, .mvNone => .err "AttributeError"                -- "Memoryview is not initialized"
  | _, .mv id => .ok (.ref "_memoryviewslice" id)

def truthy : PyVal → Bool
  | .none => false | .int i => i != 0 | .bool b => b | .float x => x != 0 | .str s => s != ""
  | .ref _ _ => true | .sdict _ => true | .ilist xs => !xs.isEmpty | .bytes bs => !bs.isEmpty
  | .dict kv => !kv.isEmpty

/-- Assignment `__pyx_result.x = __pyx_state[i]`: coercion of a Python object to the slot type. -/
def fromPy : Ty → PyVal → Res CVal
  | .obj, v => .ok (.py v)
  | .typed t, v => if v == .none || tagOf v == t then .ok (.py v) else .err "TypeError"
  | .cint b s, .int i => if intRange b s i then .ok (.int i) else .err "OverflowError"
  | .cint b s, .bool x => if intRange b s (if x then 1 else 0) then .ok (.int (if x then 1 else 0)) else .err "OverflowError"
  | .cint _ _, _ => .err "TypeError"
  | .bint, v => .ok (.bit (truthy v))
  | .cfloat, .float x => .ok (.flt x)
  | .cfloat, _ => .err "TypeError"
  | .cstruct n, .sdict fs => if fs.length == n then .ok (.struct fs) else .err "ValueError"
  | .cstruct _, _ => .err "TypeError"
  | .carr n, .ilist xs => if xs.length == n then .ok (.arr xs) else .err "IndexError"
  | .carr _, _ => .err "TypeError"
  | .charptr, .bytes _ => .ok .dangling       -- pointer into the state tuple's bytes object, freed with the tuple
  | .charptr, _ => .err "TypeError"
  | .chararr n, .bytes bs => if bs.length == n then .ok (.chars bs) else .err "IndexError"
  | .chararr _, _ => .err "TypeError"
  | .memview, .ref t id => if t == "_memoryviewslice" then .ok (.mv id) else .err "TypeError"
  | .memview, .none => .ok .mvNone
  | .memview, _ => .err "TypeError"
  | .structNC, _ | .ptr, _ => .err "TypeError"

/-! ### checksum -/

/-- `' '.join(member_names)` as a character list. -/
def joinRest : List (List Char) → List Char
  | [] => []
  | a :: t => ' ' :: (a ++ joinRest t)

def joinNames : List (List Char) → List Char
  | [] => []
  | a :: t => a ++ joinRest t

def layoutText (names : List String) : List Char := joinNames (names.map String.toList)

/-- The three digests (`'0x' + hexdigest[:7]` of sha256, sha1, md5: 28 bits each) as uninterpreted
functions of the layout text. -/
structure Hash where
  sha256 : List Char → Nat
  sha1 : List Char → Nat
  md5 : List Char → Nat

def Hash.accepted (H : Hash) (text : List Char) : List Nat := [H.sha256 text, H.sha1 text, H.md5 text]

/-! ### generated code -/

def lookupSlot (slots : List (String × CVal)) (n : String) : Option CVal := (slots.find? (·.1 == n)).map (·.2)

def setSlot (slots : List (String × CVal)) (n : String) (v : CVal) : List (String × CVal) :=
  slots.map fun e => if e.1 == n then (e.1, v) else e

/-- `state = (self.m0, self.m1, …)` over the sorted members. -/
def readState (cfg : Cfg) (slots : List (String × CVal)) : List (String × Ty) → Res (List PyVal)
  | [] => .ok []
  | (n, ty) :: ms =>
    match lookupSlot slots n with
    | none => .err "AttributeError"
    | some c =>
      match toPy cfg ty c with
      | .err e => .err e
      | .ok v =>
        match readState cfg slots ms with
        | .err e => .err e
        | .ok vs => .ok (v :: vs)

/-- `self.m is not None` for some object-typed member. -/
def anyNotNone (slots : List (String × CVal)) (ms : List (String × Ty)) : Bool :=
  ms.any fun e => e.2.isPy && (lookupSlot slots e.1 != some (.py .none))

/-- Result of `__reduce_cython__`: `(unpickle, (type, checksum, inArgs))` or `(…, (type, checksum, None), state)`. -/
structure Reduced where
  tname : String
  checksum : Nat
  inArgs : Option (List PyVal)
  state : Option (List PyVal)
  deriving DecidableEq, Repr

def reduceGen (cfg : Cfg) (H : Hash) (ms : List (String × Ty)) (o : Obj) : Res Reduced :=
  match readState cfg o.slots ms with
  | .err e => .err e
  | .ok st =>
    let cs := H.sha256 (layoutText (ms.map (·.1)))
    match o.dict with
    | some (e :: d) => .ok ⟨o.tname, cs, none, some (st ++ [.dict (e :: d)])⟩
    | _ =>
      if anyNotNone o.slots ms then .ok ⟨o.tname, cs, none, some st⟩
      else .ok ⟨o.tname, cs, some st, none⟩

/-- `obj.__reduce__()` of an instance of class `K` (after `__Pyx_setup_reduce` installed `__reduce_cython__`). -/
def reduce (cfg : Cfg) (H : Hash) (K : Klass) (o : Obj) : Res Reduced :=
  match decide' cfg K with
  | .nothing => .err "default"                 -- object.__reduce_ex__ / the user's method: not modelled
  | .refuse _ _ => .err "TypeError"
  | .generate ms => reduceGen cfg H ms o

/-- `Class.__new__(type)`: zeroed C attributes in layout order (most basic class first). -/
def layout (K : Klass) : List (String × Ty) :=
  K.chain.reverse.flatMap fun c => c.vars.filter fun e => !special e.1

def fresh (K : Klass) (tname : String) (hasDict : Bool) : Obj :=
  ⟨tname, (layout K).map (fun e => (e.1, defaultVal e.2)), if hasDict then some [] else none⟩

/-- `__pyx_result.m_i = __pyx_state[i]` for i = 0, 1, …; returns the new slots and the unread tail of the state. -/
def assignAll : List (String × Ty) → List PyVal → List (String × CVal) → Res (List (String × CVal) × List PyVal)
  | [], st, slots => .ok (slots, st)
  | _ :: _, [], _ => .err "IndexError"
  | (n, ty) :: ms, v :: st, slots =>
    match fromPy ty v with
    | .err e => .err e
    | .ok c => assignAll ms st (setSlot slots n c)

def dictUpdate (cur upd : List (String × Atom)) : List (String × Atom) :=
  upd ++ cur.filter fun e => !(upd.any (·.1 == e.1))

/-- `__Pyx_UpdateUnpickledDict(obj, state, n)` given the tail `state[n:]`. -/
def updateDict (d : Option (List (String × Atom))) : List PyVal → Res (Option (List (String × Atom)))
  | [] => .ok d                                         -- `state_size <= index`
  | v :: _ =>
    if !truthy v then .ok d
    else match d with
      | none => .err "AttributeError"                   -- PyObject_GenericGetDict fails
      | some cur =>
        match v with
        | .dict kv => .ok (some (dictUpdate cur kv))
        | .sdict _ => .err "unmodelled"
        | _ => .err "AttributeError"                    -- PyDict_Update of a non-mapping: no `keys`

/-- `__pyx_unpickle_<C>__set_state(result, state)` -/
def setState (ms : List (String × Ty)) (r : Obj) (st : List PyVal) : Res Obj :=
  match assignAll ms st r.slots with
  | .err e => .err e
  | .ok (slots, rest) =>
    match updateDict r.dict rest with
    | .err e => .err e
    | .ok d => .ok ⟨r.tname, slots, d⟩

/-- `__pyx_unpickle_<C>(type, checksum, state)` of class version `K`. -/
def unpickle (H : Hash) (K : Klass) (ms : List (String × Ty)) (tname : String) (hasDict : Bool)
    (cs : Nat) (st : Option (List PyVal)) : Res Obj :=
  if (H.accepted (layoutText (ms.map (·.1)))).contains cs then
    match st with
    | none => .ok (fresh K tname hasDict)
    | some st => setState ms (fresh K tname hasDict) st
  else .err "PickleError"

/-- What `pickle` does with the reduce value (protocol independent): the argument tuple is saved before the
instance is memoised, so a reference to the instance inside it recurses for ever; memoryview objects cannot be
pickled.  Everything else is transported unchanged (trusted: CPython's pickle). -/
def transportVal (v : PyVal) : Res PyVal :=
  match v with
  | .ref t _ => if t == "_memoryviewslice" then .err "TypeError" else .ok v
  | _ => .ok v

def transport : List PyVal → Res (List PyVal)
  | [] => .ok []
  | v :: vs =>
    match transportVal v with
    | .err e => .err e
    | .ok v' => match transport vs with
      | .err e => .err e
      | .ok vs' => .ok (v' :: vs')

def hasSelfRef (st : List PyVal) : Bool := st.any fun v => match v with | .ref _ 0 => true | _ => false

/-- `pickle.loads(pickle.dumps(o))`: pickled by class version `KA`, loaded by class version `KB`
(`KB = KA` for the plain round trip). -/
def roundtrip (cfg : Cfg) (H : Hash) (KA KB : Klass) (hasDictB : Bool) (o : Obj) : Res Obj :=
  match reduce cfg H KA o with
  | .err e => .err e
  | .ok r =>
    match decide' cfg KB with
    | .generate msB =>
      match r.inArgs, r.state with
      | some a, _ =>
        if hasSelfRef a then .err "RecursionError" else
        match transport a with
        | .err e => .err e
        | .ok a' => unpickle H KB msB r.tname hasDictB r.checksum (some a')
      | none, some st =>
        match transport st with
        | .err e => .err e
        | .ok st' =>
          match unpickle H KB msB r.tname hasDictB r.checksum none with
          | .err e => .err e
          | .ok fresh' => setState msB fresh' st'
      | none, none => unpickle H KB msB r.tname hasDictB r.checksum none
    | _ => .err "AttributeError"      -- no `__pyx_unpickle_<C>` in the loading module

/-! ### line protocol -/

def splitFirst (s : String) (c : Char) : Option (String × String) :=
  let cs := s.toList
  if cs.contains c then some (String.ofList (cs.takeWhile (· ≠ c)), String.ofList ((cs.dropWhile (· ≠ c)).drop 1)) else none

def sepList (s : String) (sep : String) : List String := if s == "" || s == "-" then [] else s.splitOn sep

def parseTy (s : String) : Option Ty :=
  match s.toList with
  | ['o'] => some .obj
  | 't' :: r => some (.typed (String.ofList r))
  | 'i' :: r =>
    let sg := r.getLast?
    let bits := (String.ofList r.dropLast).toNat?
    match sg, bits with
    | some 's', some b => some (.cint b true)
    | some 'u', some b => some (.cint b false)
    | _, _ => none
  | ['b'] => some .bint
  | ['f'] => some .cfloat
  | 'S' :: r => (String.ofList r).toNat?.map .cstruct
  | 'A' :: r => (String.ofList r).toNat?.map .carr
  | ['X'] => some .structNC
  | ['p'] => some .ptr
  | ['c', 'p'] => some .charptr
  | 'c' :: 'a' :: r => (String.ofList r).toNat?.map .chararr
  | ['m', 'v'] => some .memview
  | _ => none

def parseClass (s : String) : Option ClassD :=
  match splitFirst s '~' with
  | none => none
  | some (fl, vs) =>
    if !(fl.toList.all fun c => c == 'c' || c == 'r' || c == '-') then none else
    match (sepList vs ",").mapM (fun v => match splitFirst v ':' with
        | some (n, t) => (parseTy t).map (fun ty => (n, ty))
        | none => none) with
    | none => none
    | some vars => some ⟨fl.toList.contains 'c', fl.toList.contains 'r', vars⟩

def parseAP (s : String) : Option (Option Bool) :=
  match s with
  | "T" => some (some true) | "F" => some (some false) | "N" => some none | _ => none

def parseKlass (ap chain : String) : Option Klass :=
  match parseAP ap, (chain.splitOn "/").mapM parseClass with
  | some a, some cs => some ⟨a, cs⟩
  | _, _ => none

def parseCfg (s : String) : Option Cfg :=
  match s with
  | "00" => some ⟨false, false⟩ | "10" => some ⟨true, false⟩
  | "01" => some ⟨false, true⟩ | "11" => some ⟨true, true⟩ | _ => none

def parseInts (s : String) : Option (List Int) := (sepList s ";").mapM String.toInt?

def parseRef (s : String) : Option (String × Nat) :=
  match splitFirst s '#' with
  | some (t, i) => i.toNat?.map (fun n => (t, n))
  | none => none

def parseAtom (s : String) : Option Atom :=
  match s.toList with
  | ['N'] => some .none
  | 'i' :: r => (String.ofList r).toInt?.map .int
  | 's' :: r => some (.str (String.ofList r))
  | 'r' :: r => (parseRef (String.ofList r)).map fun p => .ref p.1 p.2
  | _ => none

def parseKV (s : String) : Option (List (String × Atom)) :=
  (sepList s "&").mapM fun e => match splitFirst e '=' with
    | some (k, v) => (parseAtom v).map fun a => (k, a)
    | none => none

def parsePy (s : String) : Option PyVal :=
  match s.toList with
  | ['N'] => some .none
  | 'i' :: r => (String.ofList r).toInt?.map .int
  | ['b', '0'] => some (.bool false)
  | ['b', '1'] => some (.bool true)
  | 'f' :: r => (String.ofList r).toNat?.map .float
  | 's' :: r => some (.str (String.ofList r))
  | 'r' :: r => (parseRef (String.ofList r)).map fun p => .ref p.1 p.2
  | 'D' :: r => (parseInts (String.ofList r)).map .sdict
  | 'L' :: r => (parseInts (String.ofList r)).map .ilist
  | 'y' :: r => (parseHexBytes (String.ofList r)).map .bytes
  | 'd' :: r => (parseKV (String.ofList r)).map .dict
  | _ => none

def parseC (s : String) : Option CVal :=
  match s.toList with
  | 'P' :: r => (parsePy (String.ofList r)).map .py
  | 'I' :: r => (String.ofList r).toInt?.map .int
  | ['B', '0'] => some (.bit false)
  | ['B', '1'] => some (.bit true)
  | 'F' :: r => (String.ofList r).toNat?.map .flt
  | 'S' :: r => (parseInts (String.ofList r)).map .struct
  | 'A' :: r => (parseInts (String.ofList r)).map .arr
  | ['Z'] => some .nullp
  | 'C' :: r => (parseHexBytes (String.ofList r)).map .cstr
  | ['G'] => some .dangling
  | 'H' :: r => (parseHexBytes (String.ofList r)).map .chars
  | ['M'] => some .mvNone
  | 'V' :: r => (String.ofList r).toNat?.map .mv
  | _ => none

def parseSlots (s : String) : Option (List (String × CVal)) :=
  (sepList s ",").mapM fun e => match splitFirst e '=' with
    | some (k, v) => (parseC v).map fun c => (k, c)
    | none => none

def parseDictOpt (s : String) : Option (Option (List (String × Atom))) :=
  match s.toList with
  | ['-'] => some none
  | 'd' :: r => (parseKV (String.ofList r)).map some
  | _ => none

def parseObj (tn sl d : String) : Option Obj :=
  match parseSlots sl, parseDictOpt d with
  | some s, some dd => some ⟨tn, s, dd⟩
  | _, _ => none

def parseState (s : String) : Option (List PyVal) := (sepList s ",").mapM parsePy

def showInts (xs : List Int) : String := ";".intercalate (xs.map toString)

def showAtom : Atom → String
  | .none => "N" | .int i => s!"i{i}" | .str s => "s" ++ s | .ref t i => s!"r{t}#{i}"

def showKV (kv : List (String × Atom)) : String := "d" ++ "&".intercalate (kv.map fun e => e.1 ++ "=" ++ showAtom e.2)

def showPy : PyVal → String
  | .none => "N" | .int i => s!"i{i}" | .bool b => if b then "b1" else "b0" | .float x => s!"f{x}"
  | .str s => "s" ++ s | .ref t i => s!"r{t}#{i}" | .sdict fs => "D" ++ showInts fs | .ilist xs => "L" ++ showInts xs
  | .bytes bs => "y" ++ bytesToHex bs | .dict kv => showKV kv

def showC : CVal → String
  | .py v => "P" ++ showPy v | .int i => s!"I{i}" | .bit b => if b then "B1" else "B0" | .flt x => s!"F{x}"
  | .struct fs => "S" ++ showInts fs | .arr xs => "A" ++ showInts xs | .nullp => "Z" | .cstr bs => "C" ++ bytesToHex bs
  | .dangling => "G" | .chars bs => "H" ++ bytesToHex bs | .mvNone => "M" | .mv i => s!"V{i}"

def showList (xs : List String) : String := if xs.isEmpty then "-" else ",".intercalate xs

def showObj (o : Obj) : String :=
  o.tname ++ " " ++ showList (o.slots.map fun e => e.1 ++ "=" ++ showC e.2) ++ " " ++
    (match o.dict with | none => "-" | some kv => showKV kv)

def showRes {α} (f : α → String) : Res α → String
  | .ok v => "ok " ++ f v
  | .err e => if e.startsWith "ub:" then "ub " ++ (e.drop 3).toString else "err " ++ e

def showDecision : Decision → String
  | .nothing => "nothing"
  | .refuse .cinit ce => "refuse cinit " ++ (if ce then "E" else "-")
  | .refuse (.nonPy ns) ce => "refuse nonpy:" ++ showList ns ++ " " ++ (if ce then "E" else "-")
  | .refuse (.structs ns) ce => "refuse struct:" ++ showList ns ++ " " ++ (if ce then "E" else "-")
  | .generate ms => "gen " ++ showList (ms.map (·.1))

def showReduced (r : Reduced) : String :=
  match r.inArgs, r.state with
  | some a, _ => s!"2 {r.tname} {r.checksum} " ++ showList (a.map showPy)
  | none, some st => s!"3 {r.tname} {r.checksum} " ++ showList (st.map showPy)
  | none, none => s!"3 {r.tname} {r.checksum} None"

/-- digest table handed over by the harness: `h:<names joined by +>:<sha256>:<sha1>:<md5>` -/
def parseHashTab (ts : List String) : Option (List (List Char × Nat × Nat × Nat)) :=
  ts.mapM fun t => match t.splitOn ":" with
    | ["h", ns, a, b, c] =>
      match a.toNat?, b.toNat?, c.toNat? with
      | some a, some b, some c => some (layoutText (sepList ns "+"), a, b, c)
      | _, _, _ => none
    | _ => none

def tabHash (tab : List (List Char × Nat × Nat × Nat)) : Hash :=
  let get := fun (t : List Char) => ((tab.find? (·.1 == t)).map (·.2)).getD (0, 0, 0)
  ⟨fun t => (get t).1, fun t => (get t).2.1, fun t => (get t).2.2⟩

def tabHas (tab : List (List Char × Nat × Nat × Nat)) (K : Klass) : Bool :=
  tab.any (·.1 == layoutText (memberNames K))

def handle : List String → String
  | ["decide", cfg, ap, chain] =>
    match parseCfg cfg, parseKlass ap chain with
    | some c, some K => "ok " ++ showDecision (decide' c K)
    | _, _ => "bad-op"
  | "reduce" :: cfg :: ap :: chain :: tn :: sl :: d :: hs =>
    match parseCfg cfg, parseKlass ap chain, parseObj tn sl d, parseHashTab hs with
    | some c, some K, some o, some tab =>
      if !tabHas tab K then "bad-op" else showRes showReduced (reduce c (tabHash tab) K o)
    | _, _, _, _ => "bad-op"
  | "rt" :: cfg :: apA :: chainA :: apB :: chainB :: hdB :: tn :: sl :: d :: hs =>
    match parseCfg cfg, parseKlass apA chainA, parseKlass apB chainB, parseObj tn sl d, parseHashTab hs with
    | some c, some KA, some KB, some o, some tab =>
      if !tabHas tab KA || !tabHas tab KB || !(hdB == "1" || hdB == "0") then "bad-op"
      else showRes showObj (roundtrip c (tabHash tab) KA KB (hdB == "1") o)
    | _, _, _, _, _ => "bad-op"
  | ["setstate", cfg, ap, chain, tn, hd, st] =>
    match parseCfg cfg, parseKlass ap chain, parseState st with
    | some c, some K, some s =>
      if !(hd == "1" || hd == "0") then "bad-op" else
      match decide' c K with
      | .generate ms => showRes showObj (setState ms (fresh K tn (hd == "1")) s)
      | .refuse _ _ => "err TypeError"
      | .nothing => "err AttributeError"
    | _, _, _ => "bad-op"
  | "unpickle" :: cfg :: ap :: chain :: tn :: hd :: cs :: st :: hs =>
    match parseCfg cfg, parseKlass ap chain, cs.toNat?, parseHashTab hs with
    | some c, some K, some csn, some tab =>
      if !tabHas tab K || !(hd == "1" || hd == "0") then "bad-op" else
      match decide' c K, (if st == "None" then some none else (parseState st).map some) with
      | .generate ms, some s => showRes showObj (unpickle (tabHash tab) K ms tn (hd == "1") csn s)
      | _, _ => "bad-op"
    | _, _, _, _ => "bad-op"
  | _ => "bad-op"

end CyVerif.C29

import CyVerif.Model.C34Doc
/-! Line protocol of the C34 model (see harness/props/c34.py for the token grammar). -/
namespace CyVerif.C34

def nats (s : String) (sep : Char := '.') : Option (List Nat) :=
  ((s.splitOn (String.singleton sep)).filter (· ≠ "")).mapM String.toNat?

def b01 (n : Nat) : Bool := n != 0

def parseTy (s : String) : Option Ty :=
  match s.toList with
  | 'B' :: [] => some .bint
  | 'O' :: [] => some .obj
  | c :: rest =>
    match nats (String.ofList rest) with
    | none => none
    | some ns =>
      match c, ns with
      | 'i', [r, sg, sz] => some (.cint r sg sz)
      | 'f', [r, sz] => some (.cfloat r sz)
      | 'c', [r, sz] => some (.ccomplex r sz)
      | 'b', [n] => some (.builtin n)
      | 'e', [n] => some (.ext n)
      | 'm', [k, sz, nd, cc] => some (.mview k sz nd (b01 cc))
      | _, _ => none
  | [] => none

def parseVal (s : String) : Option Val :=
  match s.toList with
  | ['I'] => some .int | ['T'] => some .bool | ['F'] => some .float | ['C'] => some .complex
  | ['N'] => some .none | ['o'] => some .other
  | c :: rest =>
    match nats (String.ofList rest) with
    | none => none
    | some ns =>
      match c, ns with
      | 'b', [n] => some (.builtin n true)
      | 's', [n] => some (.builtin n false)
      | 'x', mro => some (.inst mro)
      | 'u', [nd, k, sz, ndim, nat, cc, wr] => some (.buf (b01 nd) k sz ndim (b01 nat) (b01 cc) (b01 wr))
      | _, _ => none
  | [] => none

/-- index of the Python class of a member's type object in the measured address-order string:
0 CIntType, 1 CBIntType, 2 CFloatType, 3 CComplexType, 4 PyObjectType, 6 PyExtensionType, 7 MemoryViewSliceType,
8 the class of Py_ssize_t, 9 the class of size_t, 10+n the class of builtin type n -/
def clsx : Ty → Nat
  | .cint 14 1 _ => 8
  | .cint 14 0 _ => 9
  | .builtin n => 10 + n
  | t => t.cls

def parseBelow (s : String) : Ty → Bool :=
  let bits := s.toList
  fun t => bits.getD (clsx t) '0' == '1'

def idxStr (xs : List Nat) : String := "_".intercalate (xs.map toString)

def errStr : Err → String
  | .argcount => "err TypeError argcount"
  | .nomatch => "err TypeError nomatch"
  | .ambiguous => "err TypeError ambiguous"
  | .badDecl => "bad-op"

/-- take `n` groups from a token list with a parser that consumes a prefix -/
def takeN {α : Type} (f : List String → Option (α × List String)) : Nat → List String → Option (List α × List String)
  | 0, ts => some ([], ts)
  | n + 1, ts =>
    match f ts with
    | none => none
    | some (a, rest) =>
      match takeN f n rest with
      | none => none
      | some (as, rest') => some (a :: as, rest')

def parseFvar : List String → Option (List Ty × List String)
  | k :: ts =>
    match k.toNat? with
    | none => none
    | some k => if ts.length < k then none else
      match (ts.take k).mapM parseTy with
      | none => none
      | some tys => some (tys, ts.drop k)
  | [] => none

def parseParam : List String → Option (Param × List String)
  | name :: fv :: ndim :: dflt :: an :: ts =>
    match name.toNat?, ndim.toNat? with
    | some name, some ndim =>
      let fv? : Option (Option Nat) := if fv == "-" then some none else fv.toNat?.map some
      let df? : Option (Option Val) := if dflt == "-" then some none else (parseVal dflt).map some
      match fv?, df? with
      | some fv, some df => some ({ name := name, fv := fv, ndim := ndim, dflt := df, acceptNone := an == "1" }, ts)
      | _, _ => none
    | _, _ => none
  | _ => none

def parseVal1 : List String → Option (Val × List String)
  | t :: ts => (parseVal t).map (·, ts)
  | [] => none

def parseKw : List String → Option ((Nat × Val) × List String)
  | n :: t :: ts => match n.toNat?, parseVal t with
    | some n, some v => some ((n, v), ts)
    | _, _ => none
  | _ => none

def counted {α : Type} (f : List String → Option (α × List String)) : List String → Option (List α × List String)
  | n :: ts => match n.toNat? with | some n => takeN f n ts | none => none
  | [] => none

def handleDisp (below : String) (ts : List String) : String :=
  match counted parseFvar ts with
  | none => "bad-op"
  | some (fvars, ts) =>
    match counted parseParam ts with
    | none => "bad-op"
    | some (params, ts) =>
      match counted parseVal1 ts with
      | none => "bad-op"
      | some (pos, ts) =>
        match counted parseKw ts with
        | some (kw, []) =>
          if fvars.any (fun m => m.length ≥ 64) then "bad-op" else
          match dispatch { mvBelow := parseBelow below, fvars := fvars, params := params } { pos := pos, kw := kw } with
          | .ok sig => s!"ok {idxStr sig}"
          | .error e => errStr e
        | _ => "bad-op"

def unesc (s : String) : String := s.replace "~" " "

def handle : List String → String
  | "sort" :: below :: tys =>
    match tys.mapM parseTy with
    | some tys => if tys.length ≥ 64 then "bad-op" else
      s!"ok {idxStr ((sortedMembers (parseBelow below) tys).map (·.2))}"
    | none => "bad-op"
  | "map" :: below :: an :: ndim :: v :: tys =>
    match tys.mapM parseTy, parseVal v, ndim.toNat? with
    | some tys, some v, some ndim =>
      if tys.length ≥ 64 then "bad-op" else
      match testTypes tys ndim with
      | none => "bad-op"
      | some tt =>
        match mapType (sortedMembers (parseBelow below) tt) (an == "1") v with
        | some i => s!"ok {i}"
        | none => "ok none"
    | _, _, _ => "bad-op"
  | "doc" :: an :: ndim :: v :: tys =>
    match tys.mapM parseTy, parseVal v, ndim.toNat? with
    | some tys, some v, some ndim =>
      match testTypes tys ndim with
      | none => "bad-op"
      | some tt => s!"ok {natsToStr (docChoice (withIdx tt) (an == "1") v)}"
    | _, _, _ => "bad-op"
  | "disp" :: below :: ts => handleDisp below ts
  | "getitem" :: nk :: ts =>
    match nk.toNat? with
    | none => "bad-op"
    | some nk =>
      if ts.length < nk then "bad-op" else
      let keys := (ts.take nk).zipIdx.map (fun kv => (unesc kv.1, [kv.2]))
      match getitem keys ((ts.drop nk).map unesc) with
      | some [i] => s!"ok {i}"
      | _ => "err KeyError"
  | _ => "bad-op"

end CyVerif.C34

import CyVerif.Model.C17Contig
/-! C17 — line protocol. -/
namespace CyVerif.C17

def natsOf (xs : List String) : Option (List Nat) := xs.mapM (·.toNat?)
def intsOf (xs : List String) : Option (List Int) := xs.mapM (·.toInt?)

/-- slots: `n` then per slot `group size off cplx nd d1 … dnd` -/
def parseSlots : Nat → List Nat → Option (List Slot × List Nat)
  | 0, rest => some ([], rest)
  | n + 1, g :: size :: off :: cplx :: nd :: rest =>
    if rest.length < nd then none else
    (parseSlots n (rest.drop nd)).map fun (ss, r) =>
      ({ group := Char.ofNat g, size := size, off := off, arr := rest.take nd, cplx := cplx = 1 } :: ss, r)
  | _, _ => none

def renderR : R Unit → String
  | .ok _ => "ok"
  | .err k => "err " ++ k
  | .ub k => "ub " ++ k
  | .fuel => "fuel"

def parseAxes : Nat → List Int → Option (List Axis)
  | 0, [] => some []
  | n + 1, sh :: st :: su :: sp :: rest => (parseAxes n rest).map ({ shape := sh, stride := st, sub := su, spec := sp.toNat } :: ·)
  | _, _ => none

/-- driver guard only: a repeat count so large that materialising the reference layout is pointless -/
def tooBig (fmt : List Char) : Bool :=
  match items (fmt.length + 1) '@' none fmt with
  | some is => is.any fun | .ty _ n _ _ => n > 100000 | .pad _ => false
  | none => false

def handle : List String → String
  | "fmt" :: args =>
    match natsOf args with
    | some (guard :: itemsize :: dtsize :: n :: rest) =>
      match parseSlots n rest with
      | some (slots, codes) => renderR (acquire (guard = 1) slots dtsize itemsize (codes.map Char.ofNat))
      | none => "bad-op"
    | _ => "bad-op"
  | "spec" :: args =>
    match natsOf args with
    | some (_ :: itemsize :: dtsize :: n :: rest) =>
      match parseSlots n rest with
      | some (slots, codes) => if tooBig (codes.map Char.ofNat) then "toobig" else if refAccept slots dtsize itemsize (codes.map Char.ofNat) then "accept" else "reject"
      | none => "bad-op"
    | _ => "bad-op"
  | "ref" :: args =>
    match natsOf args with
    | some codes =>
      if tooBig (codes.map Char.ofNat) then "toobig" else
      match refLayout (codes.map Char.ofNat) with
      | none => "none"
      | some (fs, e) => "some " ++ " ".intercalate (fs.map fun f => s!"{f.group.toNat},{f.size},{f.off}") ++ s!" end {e}"
    | none => "bad-op"
  | "contig" :: args =>
    match intsOf args with
    | some (flag :: hs :: hsub :: itemsize :: len :: n :: rest) =>
      match parseAxes n.toNat rest with
      | some axes =>
        match validateAxes flag.toNat (hs = 1) (hsub = 1) itemsize len axes with
        | none => "ok"
        | some e => "err " ++ e
      | none => "bad-op"
    | _ => "bad-op"
  | _ => "bad-op"

end CyVerif.C17

import CyVerif.Model.C18Base
/-!
Model of `Cython/Utility/TypeConversion.c` section `CIntToPyUnicode`
(`__Pyx__PyUnicode_From_<type>(value, width, padding_char, format_char)`) for a C integer type of
`n` bytes (`sizeof(TYPE)`) and given signedness, and of `Cython/Utility/StringTools.c` section
`BuildPyUnicode` (`__Pyx_PyUnicode_BuildFromAscii`).

Memory is bounds-checked: the stack buffer `char digits[sizeof(TYPE)*3+2]` is only ever written by
pre-decrement stores, so its state is `(dpos, cells)` with `cells = digits[dpos .. end)`; a store that
would move `dpos` below 0, a table read outside the table, a unicode-buffer write outside
`[0, ulength)`, a failed `assert` and an unwritten result cell are all `ub` outcomes.
C arithmetic: `%` is `Int.tmod`, `/` is `Int.tdiv` (C99 truncation); operands narrower than `int`
are promoted, which does not change the mathematical result; `(TYPE)(remaining / k)` never wraps
because the quotient is in range; `abs((int) r)` has `|r| < 100`.
-/
namespace CyVerif.C18

/-- `digits[dpos .. end)` of the stack buffer -/
structure DBuf where
  dpos : Nat
  cells : List Char
  deriving Repr, DecidableEq

/-- `*(--dpos) = c` -/
def DBuf.push1 (b : DBuf) (c : Char) : Option DBuf :=
  if 1 ≤ b.dpos then some ⟨b.dpos - 1, c :: b.cells⟩ else none

/-- `dpos -= 2; memcpy(dpos, src, 2)` -/
def DBuf.push2 (b : DBuf) (c0 c1 : Char) : Option DBuf :=
  if 2 ≤ b.dpos then some ⟨b.dpos - 2, c0 :: c1 :: b.cells⟩ else none

/-- bounds-checked table read -/
def tbl (t : List Char) (i : Nat) : Option Char := t[i]?

/-- the `case 'o'` / `case 'd'` body: `sq` = 8*8 or 10*10, `lim` = 8 or 10 -/
def pairStep (table : List Char) (sq lim : Nat) (rem : Int) (b : DBuf) : Except String (Int × DBuf × Bool) :=
  let digitPos := (Int.tmod rem sq).natAbs          -- abs((int)(remaining % (k*k)))
  let rem' := Int.tdiv rem sq                        -- (TYPE)(remaining / (k*k))
  match tbl table (digitPos * 2), tbl table (digitPos * 2 + 1) with
  | some c0, some c1 =>
    match b.push2 c0 c1 with
    | some b' => .ok (rem', b', decide (digitPos < lim))   -- last_one_off = (digit_pos < k)
    | none => .error "oob-write"
  | _, _ => .error "oob-read"

/-- the `case 'x'` body; `off` = 16 after `hex_digits += 16` for 'X' -/
def hexStep (off : Nat) (rem : Int) (b : DBuf) (loo : Bool) : Except String (Int × DBuf × Bool) :=
  match tbl DIGITS_HEX (off + (Int.tmod rem 16).natAbs) with
  | some c =>
    match b.push1 c with
    | some b' => .ok (Int.tdiv rem 16, b', loo)
    | none => .error "oob-write"
  | none => .error "oob-read"

/-- one iteration of the `do { switch (format_char) {…} }` body -/
def loopStep (fmt : Fmt) (rem : Int) (b : DBuf) (loo : Bool) : Except String (Int × DBuf × Bool) :=
  match fmt with
  | .o => pairStep DIGIT_PAIRS_8 64 8 rem b
  | .d => pairStep DIGIT_PAIRS_10 100 10 rem b
  | .x => hexStep 0 rem b loo
  | .X => hexStep 16 rem b loo

/-- `do { body } while (remaining != 0)` over an arbitrary loop body; the fuel is a model artefact
(never exhausted on in-range values, see Props) -/
def loopWith (step : Int → DBuf → Bool → Except String (Int × DBuf × Bool)) :
    Nat → Int → DBuf → Bool → Except String (DBuf × Bool)
  | 0, _, _, _ => .error "fuel"
  | fuel + 1, rem, b, loo =>
    match step rem b loo with
    | .error e => .error e
    | .ok (rem', b', loo') =>
      if rem' ≠ 0 then loopWith step fuel rem' b' loo' else .ok (b', loo')

def digitLoop (fmt : Fmt) : Nat → Int → DBuf → Bool → Except String (DBuf × Bool) :=
  loopWith (loopStep fmt)

/-! ### `__Pyx_PyUnicode_BuildFromAscii` -/

/-- `__Pyx_PyUnicode_WRITE(PyUnicode_1BYTE_KIND, udata, i, c)` into a buffer of `u.length` cells -/
def writeAt (u : List (Option Char)) (i : Int) (c : Char) : Option (List (Option Char)) :=
  if 0 ≤ i ∧ i < u.length then some (u.set i.toNat (some c)) else none

/-- consecutive writes of `cs` at `start, start+1, …` -/
def writeRun (u : List (Option Char)) (start : Int) : List Char → Option (List (Option Char))
  | [] => some u
  | c :: cs =>
    match writeAt u start c with
    | some u' => writeRun u' (start + 1) cs
    | none => none

/-- all cells written? -/
def collect : List (Option Char) → Option (List Char)
  | [] => some []
  | some c :: r => (collect r).map (c :: ·)
  | none :: _ => none

def buildFromAscii (ulength : Int) (chars : List Char) (clength : Int) (prependSign : Bool) (pad : Char) : Out :=
  if ulength < 0 then .err "SystemError" else             -- PyUnicode_New(negative size)
  let uoffset := ulength - clength
  let u0 : List (Option Char) := List.replicate ulength.toNat none
  let u1? : Option (List (Option Char)) :=
    if uoffset > 0 then
      if prependSign then
        (writeAt u0 0 '-').bind fun u => writeRun u 1 (List.replicate (uoffset - 1).toNat pad)
      else writeRun u0 0 (List.replicate uoffset.toNat pad)
    else some u0
  match u1? with
  | none => .ub "oob-write"
  | some u1 =>
    if clength.toNat > chars.length then .ub "oob-read" else
    match writeRun u1 uoffset (chars.take clength.toNat) with
    | none => .ub "oob-write"
    | some u2 =>
      match collect u2 with
      | some s => .text s
      | none => .ub "uninit"

/-! ### `__Pyx__PyUnicode_From_<type>` -/

/-- the code after the digit loop: `dpos += last_one_off`, sign, `ulength`, result construction -/
def cintFinish (size : Nat) (signed : Bool) (value : Int) (width : Int) (pad : Char) (b : DBuf) (loo : Bool) : Out :=
  -- assert(!last_one_off || *dpos == '0');  dpos += last_one_off;
  let b? : Option DBuf :=
    if loo then
      match b.cells with
      | c :: rest => if c = '0' then some ⟨b.dpos + 1, rest⟩ else none
      | [] => none
    else some b
  match b? with
  | none => .ub "assert"
  | some b =>
    let length : Int := (size : Int) - b.dpos             -- end - dpos
    let neg : Bool := signed && decide (value ≤ -1)       -- !is_unsigned && value <= neg_one
    let inl : Bool := decide (pad = ' ') || decide (width ≤ length + 1)
    let b2? : Option DBuf := if neg && inl then b.push1 '-' else some b
    let length2 : Int := if neg && inl then length + 1 else length
    let prepend : Bool := neg && !inl
    let ulength0 : Int := if neg then length + 1 else length
    match b2? with
    | none => .ub "oob-write"
    | some b2 =>
      let ulength := if width > ulength0 then width else ulength0
      if ulength = 1 then
        match b2.cells with                                -- PyUnicode_FromOrdinal(*dpos)
        | c :: _ => .text [c]
        | [] => .ub "oob-read"
      else buildFromAscii ulength b2.cells length2 prepend pad

def cintToPyUnicode (n : Nat) (signed : Bool) (value : Int) (width : Int) (pad : Char) (fmt : Fmt) : Out :=
  let size := n * 3 + 2                                   -- char digits[sizeof(TYPE)*3+2]
  match digitLoop fmt (8 * n + 1) value ⟨size, []⟩ false with
  | .error e => .ub e
  | .ok (b, loo) => cintFinish size signed value width pad b loo

end CyVerif.C18

import CyVerif.Model.Util
import CyVerif.Model.C10Utf8
/-!
# C10 (part A) — string / bytes / char literal bodies: Cython's decoding vs CPython's

Characters are code points (`Nat`); a *body* is the text between the quotes of one
literal.  Codes used: `92 = '\\'`, `39 = '\''`, `34 = '"'`, `10 = '\n'`, `123 = '{'`,
`125 = '}'`, `78 = 'N'`, `85 = 'U'`, `117 = 'u'`, `120 = 'x'`.

Modelled code (as it exists):

* `Lexicon.py` `escapeseq` (longest match of the Plex DFA) — `escLen`: the number of
  characters after the backslash that belong to the `ESCAPE` token.  The set of
  characters allowed inside `\N{…}` is the parameter `LexP.nameCh` (re-probed from the
  real scanner on every run).
* `Parsing.py` `_append_escape_sequence` — `appendEsc`, on the token text, with the
  `len(escape_sequence)` tests, `int(…, 8)`, `int(…, 16)` as written.
* `StringEncoding.py` `UnicodeLiteralBuilder` / `BytesLiteralBuilder` /
  `StrLiteralBuilder` — a `Chunk` is what one call appends to the byte side and the
  text side; `append_charval` on the byte side is `chr(n).encode('ISO-8859-1')`
  (raises for `n > 255`), `append` encodes to the source encoding (UTF-8 assumed).
* `p_string_literal` / `p_string_literal_shared_read` / `p_ft_string_middles` at
  `language_level=3`: kind selection, raw handling, the "bytes can only contain ASCII"
  test, char literal length test; non-fatal errors are recorded and parsing continues.
* `p_cat_string_literal` — `cyCat`.

Reference (CPython 3.12): `refStr` is `_PyUnicode_DecodeUnicodeEscapeInternal` over code
points (Language Reference 2.4.1), `refBytes` is `_PyBytes_DecodeEscape` preceded by the
parser's ASCII test; f-string literal parts follow `tok_get_fstring_mode` (`{{`, `}}`).
The Unicode name lookup is a parameter (`Lookup`) of both sides.
-/
namespace CyVerif.C10

/-- literal kinds after prefix analysis: `u'…'`, unprefixed, `b'…'`, `c'…'`, a literal
part of an f-string -/
inductive Kind where
  | u | s | b | c | f
  deriving DecidableEq, Repr

/-- `kind in ('u', 'f', '')` of `_append_escape_sequence` (f-string parts are read with kind "u") -/
def Kind.isText : Kind → Bool
  | .u | .s | .f => true
  | .b | .c => false

/-- has a `BytesLiteralBuilder` side -/
def Kind.hasBytes : Kind → Bool
  | .s | .b | .c => true
  | .u | .f => false

/-- result of `unicodedata.lookup(name)` as seen by either side -/
inductive LookupRes where
  | code (n : Nat)      -- a single character
  | multi               -- a named sequence (`lookup` returns several characters)
  | missing             -- KeyError
  deriving DecidableEq, Repr

abbrev Lookup := List Nat → LookupRes

structure LexP where
  /-- characters accepted between `\N{` and `}` by the scanner -/
  nameCh : List Nat
  /-- `BytesLiteralBuilder.append_charval` keeps the low 8 bits of an octal escape above
  `\377` (as CPython's bytes decoder does) instead of raising `UnicodeEncodeError` -/
  octWrap : Bool := false
  deriving Repr, DecidableEq

def LexP.nameOk (P : LexP) (c : Nat) : Bool := P.nameCh.contains c

/-- what the proofs need: neither `}` nor the backslash is a name character, and name
characters are ASCII -/
def LexP.WF (P : LexP) : Prop :=
  P.nameOk 125 = false ∧ P.nameOk 92 = false ∧ P.nameCh.all (fun c => decide (c < 128)) = true
instance instDecLexWF (P : LexP) : Decidable P.WF := by unfold LexP.WF; infer_instance

/-- the pinned Lexicon: `Range('azAZ') | Any('- ')` -/
def pinnedLex : LexP :=
  ⟨(List.range 26).map (· + 97) ++ (List.range 26).map (· + 65) ++ [45, 32], false⟩

def isOct (c : Nat) : Bool := 48 ≤ c && c ≤ 55
def isHex (c : Nat) : Bool := (48 ≤ c && c ≤ 57) || (65 ≤ c && c ≤ 70) || (97 ≤ c && c ≤ 102)
def hexDigVal (c : Nat) : Nat :=
  if c ≤ 57 then c - 48 else if c ≤ 70 then c - 55 else c - 87

/-- `Opt(Any("\n\\'\"abfnrtvNxuU"))` -/
def simpleSet : List Nat := [10, 92, 39, 34, 97, 98, 102, 110, 114, 116, 118, 78, 120, 117, 85]

/-- the first `n` characters exist and are hex digits -/
def hexPrefix (n : Nat) (t : List Nat) : Bool := decide (n ≤ t.length) && (t.take n).all isHex

/-- Number of characters after the backslash in the `ESCAPE` token. -/
def escLen (P : LexP) : List Nat → Nat
  | [] => 0
  | c :: t =>
    if isOct c then
      match t with
      | d :: t2 =>
        if isOct d then
          match t2 with
          | e :: _ => if isOct e then 3 else 2
          | [] => 2
        else 1
      | [] => 1
    else if c = 78 then
      match t with
      | 123 :: t2 =>
        match t2.dropWhile P.nameOk with
        | 125 :: _ => (t2.takeWhile P.nameOk).length + 3
        | _ => 1
      | _ => 1
    else if c = 117 then (if hexPrefix 4 t then 5 else 1)
    else if c = 120 then (if hexPrefix 2 t then 3 else 1)
    else if c = 85 then (if hexPrefix 8 t then 9 else 1)
    else if simpleSet.contains c then 1
    else 0

/-! ## Builders -/

/-- What one builder call appends: to the byte side, to the text side; whether a
non-fatal error was reported; whether literal non-ASCII characters were seen. -/
structure Chunk where
  bs : List Nat := []
  us : List Nat := []
  nonfatal : Bool := false
  nonascii : Bool := false
  deriving Repr, DecidableEq

def Chunk.app (a b : Chunk) : Chunk :=
  ⟨a.bs ++ b.bs, a.us ++ b.us, a.nonfatal || b.nonfatal, a.nonascii || b.nonascii⟩

/-- text side present (`UnicodeLiteralBuilder` or `StrLiteralBuilder`) -/
def Kind.hasText : Kind → Bool
  | .u | .s | .f => true
  | .b | .c => false

/-- the byte side of a builder call: absent for the text-only kinds -/
def bytesSide (k : Kind) (r : Res (List Nat)) : Res (List Nat) := if k.hasBytes then r else .ok []

/-- `builder.append(characters)`; `lit` = the characters come from the source text
(`handled_chars`), so they take part in the non-ASCII test. -/
def chStr (k : Kind) (chars : List Nat) (lit : Bool) : Res Chunk :=
  match bytesSide k (utf8Encode chars) with
  | .err e => .err e
  | .ok bs => .ok ⟨bs, if k.hasText then chars else [], false, lit && chars.any (fun c => decide (128 ≤ c))⟩

/-- `builder.append_charval(n)`: `chr(n).encode('ISO-8859-1')` on the byte side (raises above
255), or `bytes([n & 0xFF])` if `octWrap` -/
def chVal (P : LexP) (k : Kind) (n : Nat) : Res Chunk :=
  match bytesSide k (if n < 256 ∨ P.octWrap = true then .ok [n % 256] else .err "UnicodeEncodeError") with
  | .err e => .err e
  | .ok bs => .ok ⟨bs, if k.hasText then [n] else [], false, false⟩

/-- `builder.append_uescape(n, escape_string)` (only reached for text kinds) -/
def chUesc (k : Kind) (n : Nat) (seq : List Nat) : Res Chunk :=
  match bytesSide k (utf8Encode seq) with
  | .err e => .err e
  | .ok bs => .ok ⟨bs, [n], false, false⟩

def chErr : Res Chunk := .ok ⟨[], [], true, false⟩   -- `s.error(…, fatal=False)`

/-! ## `_append_escape_sequence` -/

/-- Python `int(text, base)` on digit strings; `none` = ValueError -/
def parseDigits (base : Nat) (ok : Nat → Bool) : List Nat → Nat → Option Nat
  | [], acc => some acc
  | c :: t, acc => if ok c then parseDigits base ok t (acc * base + hexDigVal c) else none

def parseInt (base : Nat) (ok : Nat → Bool) (s : List Nat) : Option Nat :=
  if s = [] then none else parseDigits base ok s 0

/-- `StringEncoding.char_from_escape_sequence` -/
def cyCharFromEscape (c : Nat) : Option Nat :=
  if c = 97 then some 7 else if c = 98 then some 8 else if c = 102 then some 12
  else if c = 110 then some 10 else if c = 114 then some 13 else if c = 116 then some 9
  else if c = 118 then some 11 else none

def appendEsc (P : LexP) (lk : Lookup) (k : Kind) (seq : List Nat) : Res Chunk :=
  if seq.length < 2 then chStr k [92] false
  else
    let c := seq.getD 1 0
    if isOct c then
      match parseInt 8 isOct (seq.drop 1) with
      | some n => chVal P k n
      | none => .err "ValueError"
    else if c = 39 ∨ c = 34 ∨ c = 92 then chStr k [c] false
    else if c = 97 ∨ c = 98 ∨ c = 102 ∨ c = 110 ∨ c = 114 ∨ c = 116 ∨ c = 118 then
      match cyCharFromEscape c with
      | some v => chStr k [v] false
      | none => .err "TypeError"
    else if c = 10 then .ok {}
    else if c = 120 then
      if seq.length = 4 then
        match parseInt 16 isHex (seq.drop 2) with
        | some n => chVal P k n
        | none => .err "ValueError"
      else chErr
    else if (c = 78 ∨ c = 85 ∨ c = 117) ∧ k.isText then
      if c = 78 then
        match lk (seq.drop 3).dropLast with
        | .code n => chUesc k n seq
        | .multi => .err "TypeError"       -- `ord()` of a multi-character string
        | .missing => chErr
      else if seq.length = 6 ∨ seq.length = 10 then
        match parseInt 16 isHex (seq.drop 2) with
        | some n => if n > 1114111 then .err "CompileError" else chUesc k n seq
        | none => .err "ValueError"
      else chErr
    else chStr k seq false

/-! ## The token loop of `p_string_literal` / `p_ft_string_middles` -/

/-- `rawescapeseq` of the raw f-string states: `\\` | `\` + Opt(Any('"\'')) -/
def rawEscLen : List Nat → Nat
  | c :: _ => if c = 92 ∨ c = 34 ∨ c = 39 then 1 else 0
  | [] => 0

/-- One round of the loop on a non-empty body: what is appended, and the rest of the
body.  A backslash as last character cannot occur in a complete literal (the scanner
would take the closing quote into the `ESCAPE` token and report an unclosed literal). -/
def cyStep (P : LexP) (lk : Lookup) (k : Kind) (raw : Bool) : List Nat → Res Chunk × List Nat
  | [] => (.ok {}, [])
  | c :: rest =>
    if c = 92 then
      if rest = [] then (.err "CompileError", [])
      else if raw then
        let n := if k = .f then rawEscLen rest else escLen P rest
        (chStr k (92 :: rest.take n) true, rest.drop n)
      else
        let n := escLen P rest
        (appendEsc P lk k (92 :: rest.take n), rest.drop n)
    else if k = .f ∧ (c = 123 ∨ c = 125) then
      let run := (c :: rest).takeWhile (· = c)
      let rest' := (c :: rest).drop run.length
      if raw then (.err "unsupported", rest')          -- raw f-strings with braces: not modelled
      else if run.length % 2 = 0 then (chStr k (List.replicate (run.length / 2) c) true, rest')
      else if c = 123 then (.err "unsupported", rest')  -- a replacement field starts here
      else                                              -- single '}' is not allowed: reported, scanning goes on
        (match chStr k (List.replicate (run.length / 2) c) true with
         | .ok ch => .ok { ch with nonfatal := true }
         | .err e => .err e, rest')
    else (chStr k [c] true, rest)

def cyLoop (P : LexP) (lk : Lookup) (k : Kind) (raw : Bool) : Nat → List Nat → Res Chunk
  | 0, _ => .err "fuel"
  | _ + 1, [] => .ok {}
  | fuel + 1, c :: rest =>
    match cyStep P lk k raw (c :: rest) with
    | (.err e, _) => .err e
    | (.ok ch, rest') =>
      match cyLoop P lk k raw fuel rest' with
      | .err e => .err e
      | .ok ch' => .ok (ch.app ch')

/-- `(bytes_value, unicode_value)`; `none` = Python `None` -/
structure LitVal where
  bytes : Option (List Nat)
  text : Option (List Nat)
  deriving Repr, DecidableEq

/-- `p_string_literal` (or one literal part of `p_ft_string_literal`) at `language_level=3`. -/
def cyDecode (P : LexP) (lk : Lookup) (k : Kind) (raw : Bool) (body : List Nat) : Res LitVal :=
  match cyLoop P lk k raw (body.length + 1) body with
  | .err e => .err e
  | .ok ch =>
    if k = .c then
      if ch.nonfatal || ch.bs.length != 1 then .err "CompileError" else .ok ⟨some ch.bs, none⟩
    else if ch.nonascii && k = .b then .err "CompileError"
    else if ch.nonfatal then .err "CompileError"
    else .ok ⟨if k.hasBytes then (if ch.nonascii then none else some ch.bs) else none,
              if k.hasText then some ch.us else none⟩

/-- the run-time value of the literal: text for `u`, unprefixed, f parts; bytes for `b`, `c` -/
def LitVal.value (k : Kind) (v : LitVal) : Option (List Nat) := if k.hasText then v.text else v.bytes

/-! ## Reference: CPython 3.12 -/

/-- the `switch` of `_PyUnicode_DecodeUnicodeEscapeInternal` / `_PyBytes_DecodeEscape` for
single-character escapes -/
def refSimple (c : Nat) : Option Nat :=
  if c = 92 then some 92 else if c = 39 then some 39 else if c = 34 then some 34
  else if c = 98 then some 8 else if c = 102 then some 12 else if c = 116 then some 9
  else if c = 110 then some 10 else if c = 114 then some 13 else if c = 118 then some 11
  else if c = 97 then some 7 else none

/-- `x = c - '0'; if (s < end && '0' <= *s <= '7') { x = (x<<3) + *s++ - '0'; if (…) … }` -/
def refOct (c : Nat) (rest : List Nat) : Nat × List Nat :=
  let x := c - 48
  match rest with
  | d :: t =>
    if isOct d then
      let x := x * 8 + (d - 48)
      match t with
      | e :: t2 => if isOct e then (x * 8 + (e - 48), t2) else (x, t)
      | [] => (x, t)
    else (x, rest)
  | [] => (x, rest)

/-- `for (; count; ++s, --count) { c = *s; ch <<= 4; … else goto incomplete; }` -/
def refHex : Nat → List Nat → Nat → Option (Nat × List Nat)
  | 0, rest, acc => some (acc, rest)
  | n + 1, c :: rest, acc => if isHex c then refHex n rest (acc * 16 + hexDigVal c) else none
  | _ + 1, [], _ => none

def refHexEsc (n : Nat) (t : List Nat) : Res (List Nat) × List Nat :=
  match refHex n t 0 with
  | none => (.err "SyntaxError", t)                  -- truncated \xXX / \uXXXX / \UXXXXXXXX escape
  | some (v, r) => if v > 0x10FFFF then (.err "SyntaxError", r) else (.ok [v], r)

/-- One step of the str decoder (`fstr`: literal part of an f-string, where `{{`/`}}` stand
for one brace and a single `{` starts a replacement field). -/
def refStep (lk : Lookup) (fstr : Bool) : List Nat → Res (List Nat) × List Nat
  | [] => (.ok [], [])
  | c :: rest =>
    if c ≠ 92 then
      if fstr ∧ (c = 123 ∨ c = 125) then
        match rest with
        | d :: t => if d = c then (.ok [c], t)
                    else (.err (if c = 123 then "unsupported" else "SyntaxError"), rest)
        | [] => (.err (if c = 123 then "unsupported" else "SyntaxError"), rest)
      else (.ok [c], rest)
    else
      match rest with
      | [] => (.err "SyntaxError", [])                -- "\ at end of string"
      | d :: t =>
        if d = 10 then (.ok [], t)
        else match refSimple d with
        | some v => (.ok [v], t)
        | none =>
          if isOct d then (.ok [(refOct d t).1], (refOct d t).2)
          else if d = 120 then refHexEsc 2 t
          else if d = 117 then refHexEsc 4 t
          else if d = 85 then refHexEsc 8 t
          else if d = 78 then
            match t with
            | 123 :: t2 =>
              match t2.dropWhile (· ≠ 125) with
              | 125 :: r =>
                if t2.takeWhile (· ≠ 125) = [] then (.err "SyntaxError", r)
                else match lk (t2.takeWhile (· ≠ 125)) with
                  | .code n => (.ok [n], r)
                  | _ => (.err "SyntaxError", r)       -- unknown Unicode character name
              | _ => (.err "SyntaxError", t)           -- malformed \N character escape
            | _ => (.err "SyntaxError", t)
          else (.ok [92], rest)                        -- unrecognised: the backslash stays

/-- One step of the bytes decoder. -/
def refBStep : List Nat → Res (List Nat) × List Nat
  | [] => (.ok [], [])
  | c :: rest =>
    if c ≠ 92 then (.ok [c], rest)
    else
      match rest with
      | [] => (.err "SyntaxError", [])                -- "Trailing \ in string"
      | d :: t =>
        if d = 10 then (.ok [], t)
        else match refSimple d with
        | some v => (.ok [v], t)
        | none =>
          if isOct d then (.ok [(refOct d t).1 % 256], (refOct d t).2)
          else if d = 120 then
            match refHex 2 t 0 with
            | none => (.err "SyntaxError", t)         -- invalid \x escape
            | some (v, r) => (.ok [v], r)
          else (.ok [92], rest)                        -- `*p++ = '\\'; s--;`

def refLoop (step : List Nat → Res (List Nat) × List Nat) : Nat → List Nat → Res (List Nat)
  | 0, _ => .err "fuel"
  | _ + 1, [] => .ok []
  | fuel + 1, c :: rest =>
    match step (c :: rest) with
    | (.err e, _) => .err e
    | (.ok out, rest') =>
      match refLoop step fuel rest' with
      | .err e => .err e
      | .ok v => .ok (out ++ v)

/-- The value CPython gives the literal with this body (`err` = rejected).  Raw bodies are
taken verbatim.  A char literal (`c'…'`, Cython only) is specified as the single byte of
the bytes literal with the same body. -/
def refDecode (lk : Lookup) (k : Kind) (raw : Bool) (body : List Nat) : Res (List Nat) :=
  match k with
  | .u | .s => if raw then .ok body else refLoop (refStep lk false) (body.length + 1) body
  | .f =>
    if raw then (if body.any (fun c => c = 123 ∨ c = 125) then .err "unsupported" else .ok body)
    else refLoop (refStep lk true) (body.length + 1) body
  | .b | .c =>
    if body.any (fun c => decide (128 ≤ c)) then .err "SyntaxError"   -- bytes can only contain ASCII literal characters
    else
      match (if raw then .ok body else refLoop refBStep (body.length + 1) body) with
      | .err e => .err e
      | .ok v => if k = .c ∧ v.length ≠ 1 then .err "SyntaxError" else .ok v

/-! ## `p_cat_string_literal` (implicit concatenation) -/

/-- kinds as returned by `p_string_literal` at `language_level=3` -/
inductive CK where
  | u | b | c | f
  deriving DecidableEq, Repr

/-- the `while s.sy == 'BEGIN_STRING' …` loop: current kind, joined value, error seen -/
def cyCatLoop : List (CK × List Nat) → CK → List Nat → Bool → CK × List Nat × Bool
  | [], k, acc, e => (k, acc, e)
  | (nk, v) :: rest, k, acc, e =>
    if nk = .c then cyCatLoop rest k acc true
    else if nk ≠ k then
      if (k = .f ∧ nk = .u) ∨ (k = .u ∧ nk = .f) then cyCatLoop rest .f (acc ++ v) e
      else cyCatLoop rest k acc true
    else cyCatLoop rest k (acc ++ v) e

def cyCat : List (CK × List Nat) → Res (CK × List Nat)
  | [] => .err "bad-op"
  | (k0, v0) :: rest =>
    if k0 = .c then (if rest = [] then .ok (.c, v0) else .err "CompileError")
    else
      match cyCatLoop rest k0 v0 false with
      | (k, v, false) => .ok (k, v)
      | (_, _, true) => .err "CompileError"

/-- CPython: adjacent literals must be all bytes or all str (f-strings count as str; the
result is an f-string if any part is one); the value is the concatenation. -/
def refCat (parts : List (CK × List Nat)) : Res (CK × List Nat) :=
  if parts = [] then .err "bad-op"
  else if parts.any (fun p => p.1 = .c) then
    (match parts with
     | [(.c, v)] => .ok (.c, v)
     | _ => .err "SyntaxError")
  else if parts.all (fun p => p.1 = .b) then .ok (.b, parts.flatMap (·.2))
  else if parts.any (fun p => p.1 = .b) then .err "SyntaxError"
  else .ok (if parts.any (fun p => p.1 = .f) then .f else .u, parts.flatMap (·.2))

end CyVerif.C10

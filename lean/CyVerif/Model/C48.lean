import CyVerif.Model.Util
/-!
Model of the compilation-cache keys.

* `Cache.transitive_fingerprint` (Cython/Build/Cache.py):
  `sha256(version ‖ file_hash(src) ‖ file_hash(d) for d in sorted(deps) if ext(d) ∉ {.c,.cpp,.h}
          ‖ flags.get_fingerprint() ‖ options.get_fingerprint())`
  (`m.update` calls = hash of the concatenation).
* `file_hash(path) = sha256("%d:%s" % (len(path), path) ‖ content)`.
* `CompilationOptions.get_fingerprint` (Cython/Compiler/Options.py): `repr` of the key-sorted list of
  the options that are not in the exclusion lists.
* `_inline_key` (Cython/Build/Inline.py): `sha256(str((code, arg_sigs, sys.version_info, sys.executable,
  language_level, version, directives…)))`.

Strings are `List Char`.  The hash `H`, the decimal rendering `dec` of a length and the `repr`-style
renderings are parameters; what the theorems need of them is stated as hypotheses (`HashOK`, …).
-/
namespace CyVerif.C48

abbrev Str := List Char

def isHexChar (c : Char) : Bool := ('0' ≤ c && c ≤ '9') || ('a' ≤ c && c ≤ 'f')

/-- what is assumed of SHA-256 + hexdigest: injective, 64 hex characters -/
structure HashOK (H : Str → Str) : Prop where
  inj : ∀ a b, H a = H b → a = b
  len : ∀ a, (H a).length = 64
  hex : ∀ a, ∀ c ∈ H a, isHexChar c = true

/-- what is assumed of `"%d" % n`: injective, digits only (no ':') -/
structure DecOK (dec : Nat → Str) : Prop where
  inj : ∀ a b, dec a = dec b → a = b
  nocolon : ∀ a, ':' ∉ dec a

structure File where
  path : Str
  content : Str
  deriving DecidableEq

def fileHash (H : Str → Str) (dec : Nat → Str) (f : File) : Str :=
  H (dec f.path.length ++ ':' :: f.path ++ f.content)

/-- `FingerprintFlags`: (language, py_limited_api, np_pythran); language ∈ {none, "c", "c++"} -/
structure Flags where
  language : Option Bool      -- none = None, some false = 'c', some true = 'c++'
  limited : Bool
  pythran : Bool
  deriving DecidableEq

def pyBool (b : Bool) : Str := if b then "True".toList else "False".toList

def Flags.render (f : Flags) : Str :=
  let l : Str := match f.language with
    | none => "None".toList
    | some false => "'c'".toList
    | some true => "'c++'".toList
  "(".toList ++ l ++ ", ".toList ++ pyBool f.limited ++ ", ".toList ++ pyBool f.pythran ++ ")".toList

def allFlags : List Flags :=
  [none, some false, some true].flatMap fun l => [false, true].flatMap fun a => [false, true].map fun b => ⟨l, a, b⟩

/-- Options: a finite universe of option names (in the order `sorted(repr(key))` gives them) and a
value (already rendered by `to_fingerprint`) per name. -/
structure Options where
  value : Nat → Option Str           -- option index -> rendered value (none = attribute absent)

/-- `get_fingerprint`: the list of (index, value) over the universe `univ`, skipping excluded names. -/
def optionsFp (excluded : Nat → Bool) (univ : List Nat) (o : Options) : List (Nat × Str) :=
  univ.filterMap fun k => if excluded k then none else (o.value k).map fun v => (k, v)

structure Inputs where
  src : File
  deps : List File                    -- already sorted by path and filtered by extension
  flags : Flags
  opts : Options

/-- the string fed to the outer hash; `renderOpts` is Python's `repr` of the fingerprint list -/
def keyText (H : Str → Str) (dec : Nat → Str) (renderOpts : List (Nat × Str) → Str) (version : Str)
    (excluded : Nat → Bool) (univ : List Nat) (i : Inputs) : Str :=
  version ++ fileHash H dec i.src ++ (i.deps.map (fileHash H dec)).flatten ++ i.flags.render
    ++ renderOpts (optionsFp excluded univ i.opts)

def key (H : Str → Str) (dec : Nat → Str) (renderOpts : List (Nat × Str) → Str) (version : Str)
    (excluded : Nat → Bool) (univ : List Nat) (i : Inputs) : Str :=
  H (keyText H dec renderOpts version excluded univ i)

/-! ### option names (index = position in `names`) and their classification -/
def names : List String :=
  ["annotate", "annotate_coverage_xml", "build_dir", "c_line_in_traceback", "cache", "capi_reexport_cincludes",
   "common_utility_include_dir", "compile_time_env", "compiler_directives", "cplus", "create_extension", "depfile",
   "embedded_metadata", "emit_linenums", "errors_to_stderr", "evaluate_tree_assertions", "formal_grammar", "gdb_debug",
   "generate_pxi", "include_path", "language_level", "np_pythran", "output_dir", "output_file", "quiet",
   "relative_path_in_code_position_comments", "show_version", "timestamps", "use_listing_file", "verbose", "working_path"]

/-- Options that cannot influence the generated files (the specification's judgement): verbosity,
output location, dependency-file bookkeeping, timestamps, the cache switch itself, search paths
(the content of everything found through them is hashed as a dependency), build-system hooks. -/
def neutral : List String :=
  ["show_version", "errors_to_stderr", "verbose", "quiet", "output_file", "output_dir", "depfile", "timestamps", "cache",
   "include_path", "working_path", "create_extension", "build_dir"]

/-- the exclusion list is acceptable iff it only contains neutral options -/
def ExclusionOK (excludedNames : List String) : Bool := excludedNames.all fun n => neutral.contains n

/-- exclusion list of the pinned source before the repair (for the record) -/
def excludedPinned : List String :=
  ["show_version", "errors_to_stderr", "verbose", "quiet", "output_file", "output_dir", "depfile", "timestamps", "cache",
   "compiler_directives", "include_path", "working_path", "create_extension", "build_dir"]

def handle : List String → String
  | "exclusion-ok" :: ns => if ExclusionOK ns then "ok true" else "ok false"
  | ["flags", l, a, b] =>
    let lang : Option (Option Bool) := match l with | "None" => some none | "c" => some (some false) | "c++" => some (some true) | _ => none
    match lang with
    | some lg => "ok " ++ String.ofList (Flags.render ⟨lg, a == "1", b == "1"⟩)
    | none => "bad-op"
  | _ => "bad-op"

end CyVerif.C48

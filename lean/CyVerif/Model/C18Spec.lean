import CyVerif.Model.C18Base
/-!
Python-side reference semantics (`PySpec` part of C18).  These definitions say what CPython 3.12
prints; they are tied to CPython by the same differential protocol as the models of the code.

* `pyDigits`: digits of a natural number in base 10/8/16 — core Lean's `Nat.toDigits`
  (`'X'` = upper-cased hex).
* `pyFormatInt fmt zero width v` = `format(v, f"{'0' if zero else ''}{width}{fmt}")`.
-/
namespace CyVerif.C18

def Fmt.base : Fmt → Nat
  | .d => 10 | .o => 8 | .x => 16 | .X => 16

def pyDigits (fmt : Fmt) (m : Nat) : List Char :=
  match fmt with
  | .X => (Nat.toDigits 16 m).map Char.toUpper
  | f => Nat.toDigits f.base m

/-- `format(v, "[0][width]{d,o,x,X}")`: sign, magnitude digits; with the `0` flag the zeros go between
sign and digits (`=` alignment), otherwise the text is right-aligned with spaces. -/
def pyFormatInt (fmt : Fmt) (zero : Bool) (width : Nat) (v : Int) : List Char :=
  let ds := pyDigits fmt v.natAbs
  let sign : List Char := if v < 0 then ['-'] else []
  let padn := width - (sign.length + ds.length)
  if zero then sign ++ List.replicate padn '0' ++ ds
  else List.replicate padn ' ' ++ sign ++ ds

end CyVerif.C18

namespace CyVerif.C18

/-- `format(v, "[0][width]c")` for a Python int `v`: the character right-aligned in `width`,
`OverflowError` outside `range(0x110000)` -/
def pyFormatChr (pad : Char) (width : Nat) (v : Int) : OutU :=
  if v < 0 ∨ v > 0x10ffff then .err "OverflowError"
  else .text (List.replicate (width - 1) pad.toNat ++ [v.toNat])

end CyVerif.C18

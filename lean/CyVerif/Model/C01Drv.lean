import CyVerif.Model.C01Eval
/-! C01 line protocol.
`C01 run <ref|cyXYZ> <prog> <sched>`  -> `ok <trace items>`
`C01 tab <ref|cyXYZ> <prog>`            -> `ok <path>:<name>:<bind> …` (one item per name of every scope)
prog  := <n> stmt*n
stmt  := = x e | + x e | G x | NL x | D x | DEF id f <n> p*n <n> e*n <n> stmt*n | CLS id c <n> stmt*n | O e | R e | IF e <n> stmt*n
e     := L <n> a*n | N x | W x e | C e e | F id <n> p*n <n> e*n e | Q id g x <n> e*n e | A e <n> e*n
sched := <n> (S f <n> (<k> a*k)*n | J x <k> a*k)*n
-/
namespace CyVerif.C01

abbrev P (α : Type) := List String → Option (α × List String)

def pNat : P Nat
  | t :: r => t.toNat?.map (fun n => (n, r))
  | [] => none

def pRep {α : Type} (p : P α) : Nat → P (List α)
  | 0, ts => some ([], ts)
  | n + 1, ts => match p ts with
    | some (a, ts) => (pRep p n ts).map (fun (as, ts) => (a :: as, ts))
    | none => none

def pNats : P (List Nat) := fun ts => match pNat ts with
  | some (n, ts) => pRep pNat n ts
  | none => none

def Exprs.ofList : List Expr → Exprs | [] => .nil | e :: r => .cons e (Exprs.ofList r)
def Stmts.ofList : List Stmt → Stmts | [] => .nil | e :: r => .cons e (Stmts.ofList r)

mutual
def pExpr : Nat → P Expr
  | 0, _ => none
  | f + 1, ts =>
    match ts with
    | "L" :: ts => (pNats ts).map (fun (s, ts) => (.lit s, ts))
    | "N" :: ts => (pNat ts).map (fun (x, ts) => (.name x, ts))
    | "W" :: ts => (pNat ts).bind (fun (x, ts) => (pExpr f ts).map (fun (e, ts) => (.walrus x e, ts)))
    | "C" :: ts => (pExpr f ts).bind (fun (a, ts) => (pExpr f ts).map (fun (b, ts) => (.cat a b, ts)))
    | "F" :: ts => (pNat ts).bind (fun (id, ts) => (pNats ts).bind (fun (ps, ts) => (pExprL f ts).bind (fun (d, ts) =>
        (pExpr f ts).map (fun (b, ts) => (.lam id ps (Exprs.ofList d) b, ts)))))
    | "Q" :: ts => (pNat ts).bind (fun (id, ts) => (pNat ts).bind (fun (g, ts) => (pNat ts).bind (fun (x, ts) =>
        (pExprL f ts).bind (fun (its, ts) => (pExpr f ts).map (fun (e, ts) => (.comp id (g != 0) x (Exprs.ofList its) e, ts))))))
    | "A" :: ts => (pExpr f ts).bind (fun (g, ts) => (pExprL f ts).map (fun (as, ts) => (.call g (Exprs.ofList as), ts)))
    | _ => none
def pExprL : Nat → P (List Expr)
  | 0, _ => none
  | f + 1, ts => (pNat ts).bind (fun (n, ts) => pExprN f n ts)
def pExprN : Nat → Nat → P (List Expr)
  | 0, _, _ => none
  | _ + 1, 0, ts => some ([], ts)
  | f + 1, n + 1, ts => (pExpr f ts).bind (fun (e, ts) => (pExprN f n ts).map (fun (es, ts) => (e :: es, ts)))
end

mutual
def pStmt : Nat → P Stmt
  | 0, _ => none
  | f + 1, ts =>
    match ts with
    | "=" :: ts => (pNat ts).bind (fun (x, ts) => (pExpr (f + 1) ts).map (fun (e, ts) => (.assign x e, ts)))
    | "+" :: ts => (pNat ts).bind (fun (x, ts) => (pExpr (f + 1) ts).map (fun (e, ts) => (.aug x e, ts)))
    | "G" :: ts => (pNat ts).map (fun (x, ts) => (.glob x, ts))
    | "NL" :: ts => (pNat ts).map (fun (x, ts) => (.nonl x, ts))
    | "D" :: ts => (pNat ts).map (fun (x, ts) => (.del x, ts))
    | "DEF" :: ts => (pNat ts).bind (fun (id, ts) => (pNat ts).bind (fun (g, ts) => (pNats ts).bind (fun (ps, ts) =>
        (pExprL (f + 1) ts).bind (fun (d, ts) => (pStmtL f ts).map (fun (b, ts) => (.fdef id g ps (Exprs.ofList d) (Stmts.ofList b), ts))))))
    | "CLS" :: ts => (pNat ts).bind (fun (id, ts) => (pNat ts).bind (fun (c, ts) =>
        (pStmtL f ts).map (fun (b, ts) => (.cdef id c (Stmts.ofList b), ts))))
    | "O" :: ts => (pExpr (f + 1) ts).map (fun (e, ts) => (.obs e, ts))
    | "R" :: ts => (pExpr (f + 1) ts).map (fun (e, ts) => (.ret e, ts))
    | "IF" :: ts => (pExpr (f + 1) ts).bind (fun (c, ts) => (pStmtL f ts).map (fun (b, ts) => (.ifc c (Stmts.ofList b), ts)))
    | _ => none
def pStmtL : Nat → P (List Stmt)
  | 0, _ => none
  | f + 1, ts => (pNat ts).bind (fun (n, ts) => pStmtN f n ts)
def pStmtN : Nat → Nat → P (List Stmt)
  | 0, _, _ => none
  | _ + 1, 0, ts => some ([], ts)
  | f + 1, n + 1, ts => (pStmt f ts).bind (fun (s, ts) => (pStmtN f n ts).map (fun (ss, ts) => (s :: ss, ts)))
end

def pStep : P Step
  | "S" :: ts => (pNat ts).bind (fun (f, ts) => (pNat ts).bind (fun (n, ts) => (pRep pNats n ts).map (fun (as, ts) => (.call f as, ts))))
  | "J" :: ts => (pNat ts).bind (fun (x, ts) => (pNats ts).map (fun (v, ts) => (.inject x v, ts)))
  | _ => none

def pSched : P (List Step) := fun ts => (pNat ts).bind (fun (n, ts) => pRep pStep n ts)

def showPath (p : Path) : String := ".".intercalate (p.reverse.map toString)
def showBind : Bind → String
  | .var o => "v" ++ showPath o | .glob => "g" | .clsName => "c" | .builtin => "b"
def showEntry (e : Entry) : String := showPath e.path ++ ":" ++ toString e.name ++ ":" ++ showBind e.bind

/-- `ref` | `cy<c><k><d>` with the three variant flags as 0/1 (`cy000` = current, `cy111` = repaired) -/
def variantOf (which : String) : Option Variant :=
  match which.toList with
  | ['c', 'y', a, b, c] =>
    if (a == '0' || a == '1') && (b == '0' || b == '1') && (c == '0' || c == '1') then
      some ⟨a == '1', b == '1', c == '1'⟩ else none
  | _ => none

def tableFor (which : String) (prog : Stmts) : Option (List Entry × Bool) :=
  if which == "ref" then some (refTable prog, false)
  else (variantOf which).map (fun v => (cyTable v prog, !v.delGlobalNameError))

mutual
def pathsOf (pp : Path) : Scope → List Path
  | .mk id _ ks => (id :: pp) :: pathsOfKids (id :: pp) ks
def pathsOfKids (p : Path) : Kids → List Path
  | .nil => []
  | .cons s ks => pathsOf p s ++ pathsOfKids p ks
end

def handle : List String → String
  | "run" :: which :: ts =>
    let fuel := ts.length + 2
    match pStmtL fuel ts with
    | some (b, ts) =>
      (match pSched ts with
       | some (sc, []) =>
         (match tableFor which (Stmts.ofList b) with
          | some (T, ae) => "ok " ++ " ".intercalate ((run ae T (Stmts.ofList b) sc).map (fun ev => ",".intercalate (ev.map toString)))
          | none => "bad-op")
       | _ => "bad-op")
    | none => "bad-op"
  | "tab" :: which :: ts =>
    let fuel := ts.length + 2
    match pStmtL fuel ts with
    | some (b, []) =>
      (match tableFor which (Stmts.ofList b) with
       | some (T, _) => "ok " ++ " ".intercalate (T.map showEntry)
       | none => "bad-op")
    | _ => "bad-op"
  | "scopes" :: which :: ts =>
    -- the scopes the symbol-table construction of that variant creates (paths of entries, deduplicated by the harness)
    let fuel := ts.length + 2
    match pStmtL fuel ts with
    | some (b, []) =>
      (match variantOf which with
       | some v => "ok " ++ " ".intercalate ((pathsOf [] (scopeOf (cySees v (Stmts.ofList b)))).map showPath)
       | none => "bad-op")
    | _ => "bad-op"
  | _ => "bad-op"

end CyVerif.C01

import CyVerif.Model.Util
/-!
C45 — emission skeleton of profiling / tracing events of a compiled function.

Anchors: `Cython/Compiler/Nodes.py` (`FuncDefNode.generate_function_definitions`: `put_trace_start`
after the closure set-up, `put_trace_return` on the fall-off path, `put_trace_exception_propagating` +
`put_trace_unwind` / `put_trace_return("NULL")` at the error label, nothing at `__pyx_L0`;
`ReturnStatNode.generate_execution_code`: `put_trace_return` AT the return statement, before the jump to
the (possibly intercepted) return label, and NOT inside a parallel block; `GeneratorBodyDefNode`:
start at the first run, `put_trace_return(None)` on fall-off, `put_trace_unwind` at the error label),
`ExprNodes.YieldExprNode.generate_yield_code` (`put_trace_yield` … `put_trace_resume`),
`Cython/Compiler/Code.py` (`put_trace_*`, `write_trace_line`), `Cython/Utility/Profile.c`
(legacy branch: every event is guarded by `__Pyx_use_tracing`, which is set by the start macro; a
`nogil` function emits nothing unless `CYTHON_TRACE_NOGIL`; monitoring branch: same call sites,
`PY_UNWIND` instead of a second kind of return).

A program is the UNROLLED call tree of one terminating execution: every choice (succeed / raise /
return / which loop iteration breaks / what the consumer of a generator does at a `yield`) is part of
the term, so "for all executions of all programs" is "for all terms".
-/
namespace CyVerif.C45

inductive Backend where
  | legacy      -- tstate->c_profilefunc / c_tracefunc (what is compiled on CPython 3.12)
  | monitoring  -- CYTHON_USE_SYS_MONITORING (CPython 3.13+), for the theorems only
  deriving DecidableEq, Repr

structure Cfg where
  be : Backend
  linetrace : Bool     -- `linetrace=True` and `-DCYTHON_TRACE=1`
  traceNogil : Bool    -- `-DCYTHON_TRACE_NOGIL=1`
  /-- source variant: `false` = the tree as found (cpdef wrapper reports a start, the C function skips its start when
  `skip_dispatch` is set); `true` = repaired (wrapper untraced, the C function always reports its own start) -/
  fixCpdef : Bool
  /-- source variant: `false` = the tree as found (return event AT the `return` statement, none inside a parallel
  block); `true` = repaired (one return event at the function's return label) -/
  fixRet : Bool
  deriving DecidableEq, Repr

/-- kinds of bracket / line events (legacy hooks see start,resume as `call`; ret,unwind,yield as `return`) -/
inductive Kind where
  | start | resume | ret | unwind | yield | line
  deriving DecidableEq, Repr

/-- `a b` = first/last line of the function for start/resume, `a` = line number for a line event -/
structure Ev where
  kind : Kind
  fid : Nat
  a : Nat
  b : Nat
  deriving DecidableEq, Repr

/-- how the function was compiled / is entered -/
inductive FKind where
  | plain      -- def / cdef / method / lambda / module init, GIL held
  | nogil      -- `nogil` function: its own events exist only with CYTHON_TRACE_NOGIL
  | swallow    -- `noexcept` C function: an exception is reported (unwind) and then written as unraisable
  | cpdefPy    -- cpdef function entered through its Python wrapper (wrapper start, C function skip_event)
  | cskip      -- C function of a cpdef method called from C with skip_dispatch=1 (`Base.meth(self)`): start skipped
  | gen        -- generator body
  deriving DecidableEq, Repr

structure Fn where
  fid : Nat
  first : Nat
  last : Nat
  fk : FKind
  deriving DecidableEq, Repr

/-- how a statement ended; `exc c`: `c` = catchable by the `except` clauses of the mini-language -/
inductive Out where
  | norm | exc (c : Bool) | ret | brk | cont
  /-- "error exit without exception set": a bare `raise StopIteration` outside `try` in `__next__` of an extension
  type sets `__pyx_error_without_exception` and jumps to the error label; the function returns NULL with no
  exception and the caller (for-loop, list(), next(it, default), unpacking) ends the iteration or synthesises one -/
  | stop
  deriving DecidableEq, Repr

inductive Stmt where
  | skip
  | simple (ln : Nat)                       -- succeeds
  | fail (ln : Nat) (c : Bool)              -- raises
  | ret (ln : Nat)                          -- `return v`
  | retPar (ln : Nat)                       -- `return v` inside prange / parallel
  | stopNoExc (ln : Nat)                    -- bare `raise StopIteration` in `__next__`: error exit without exception
  | brk (ln : Nat)
  | cont (ln : Nat)
  | call (ln : Nat) (f : Fn) (body : Stmt)  -- call of another traced compiled function (its body unrolled)
  | ext (ln : Nat) (w : List Ev) (raises : Bool)  -- call of anything else that reports events itself
  | yld (ln : Nat) (thrown : Nat)           -- yield; consumer: 0 next/send, 1 throw(catchable), 2 close/throw(other)
  | seq (a b : Stmt)
  | tryFin (ln : Nat) (body fin : Stmt)
  | tryExc (ln : Nat) (body : Stmt) (lnExc : Nat) (handler : Stmt)
  | iter (body more : Stmt)                 -- one loop iteration, then the remaining ones
  deriving Repr

def traced (cfg : Cfg) (c : Fn) : Bool :=
  match c.fk with
  | .nogil => cfg.traceNogil
  | _ => true

def evOpen (cfg : Cfg) (c : Fn) (k : Kind) : List Ev := if traced cfg c then [⟨k, c.fid, c.first, c.last⟩] else []
def evClose (cfg : Cfg) (c : Fn) (k : Kind) : List Ev := if traced cfg c then [⟨k, c.fid, 0, 0⟩] else []
/-- the start event of a call -/
def evStart (cfg : Cfg) (c : Fn) : List Ev :=
  match c.fk, cfg.fixCpdef with
  | .cskip, false => []
  | _, _ => evOpen cfg c .start
/-- the return event of a `return` statement, where the tree as found emits it -/
def evRetStmt (cfg : Cfg) (c : Fn) : List Ev := if cfg.fixRet then [] else evClose cfg c .ret
def evLine (cfg : Cfg) (c : Fn) (ln : Nat) : List Ev :=
  if traced cfg c && cfg.linetrace then [⟨.line, c.fid, ln, 0⟩] else []

/-- return-label repair WITHOUT the cpdef repair: the (still traced) Python wrapper of a cpdef function reports a
return at its own return label as well -/
def wrapRet (cfg : Cfg) (c : Fn) : List Ev :=
  match c.fk, cfg.fixCpdef, cfg.fixRet with
  | .cpdefPy, false, true => evClose cfg c .ret
  | _, _, _ => []

/-- events at the function's exits: fall-off, error label, (nothing at the return label); and the exception the
caller sees (`some k`: raised, `k` = catchable by the `except` clauses of the mini-language) -/
def finish (cfg : Cfg) (c : Fn) (o : Out) : List Ev × Option Bool :=
  match o with
  | .ret => ((if cfg.fixRet then evClose cfg c .ret else []) ++ wrapRet cfg c, none)
  | .exc k =>
    match c.fk with
    | .cpdefPy =>   -- as found: the C function's AND the wrapper's error label report
      (if cfg.fixCpdef then evClose cfg c .unwind else evClose cfg c .unwind ++ evClose cfg c .unwind, some k)
    | .swallow => (evClose cfg c .unwind, none)
    | _ => (evClose cfg c .unwind, some k)
  | .stop =>   -- the error label reports the exit whether or not an exception is set (same call site)
    match c.fk with
    | .cpdefPy =>
      (if cfg.fixCpdef then evClose cfg c .unwind else evClose cfg c .unwind ++ evClose cfg c .unwind, some false)
    | .swallow => (evClose cfg c .unwind, none)      -- the consumer ends the iteration
    | _ => (evClose cfg c .unwind, some false)       -- `next(it)`: the caller synthesises StopIteration
  | _ => (evClose cfg c .ret ++ wrapRet cfg c, none)

/-- `exec cfg c s` = (events emitted while running `s` inside function `c`, how `s` ended) -/
def exec (cfg : Cfg) (c : Fn) : Stmt → List Ev × Out
  | .skip => ([], .norm)
  | .simple ln => (evLine cfg c ln, .norm)
  | .fail ln k => (evLine cfg c ln, .exc k)
  | .ret ln => (evLine cfg c ln ++ evRetStmt cfg c, .ret)
  | .retPar ln => (evLine cfg c ln, .ret)
  | .stopNoExc ln => (evLine cfg c ln, .stop)
  | .brk ln => (evLine cfg c ln, .brk)
  | .cont ln => (evLine cfg c ln, .cont)
  | .call ln f body =>
    let r := exec cfg f body
    let fin := finish cfg f r.2
    (evLine cfg c ln ++ (evStart cfg f ++ r.1 ++ fin.1), match fin.2 with | some k => .exc k | none => .norm)
  | .ext ln w raises => (evLine cfg c ln ++ w, if raises then .exc true else .norm)
  | .yld ln thrown =>
    match c.fk with
    | .gen => (evLine cfg c ln ++ evClose cfg c .yield ++ evOpen cfg c .resume,
               if thrown = 0 then .norm else .exc (thrown == 1))
    | _ => (evLine cfg c ln, .norm)
  | .seq a b =>
    let ra := exec cfg c a
    match ra.2 with
    | .norm => let rb := exec cfg c b; (ra.1 ++ rb.1, rb.2)
    | o => (ra.1, o)
  | .tryFin ln body fin =>
    let rb := exec cfg c body
    let rf := exec cfg c fin
    (evLine cfg c ln ++ rb.1 ++ rf.1, match rf.2 with | .norm => rb.2 | o => o)
  | .tryExc ln body lnExc h =>
    let rb := exec cfg c body
    match rb.2 with
    | .exc true => let rh := exec cfg c h; (evLine cfg c ln ++ rb.1 ++ evLine cfg c lnExc ++ rh.1, rh.2)
    | o => (evLine cfg c ln ++ rb.1, o)
  | .iter body more =>
    let rb := exec cfg c body
    match rb.2 with
    | .norm | .cont =>
      let rm := exec cfg c more
      (rb.1 ++ rm.1, match rm.2 with | .brk | .cont => .norm | o => o)
    | .brk => (rb.1, .norm)
    | o => (rb.1, o)

/-- event stream of one call of `c` with body `s` (for a generator: of its whole life), and whether the
caller sees an exception -/
def runFn (cfg : Cfg) (c : Fn) (s : Stmt) : List Ev × Bool :=
  let r := exec cfg c s
  let fin := finish cfg c r.2
  (evStart cfg c ++ r.1 ++ fin.1, fin.2.isSome)

/-! ### The specification: a stack checker (the same algorithm as the Python oracle) -/

structure Fr where
  fid : Nat
  first : Nat
  last : Nat
  deriving DecidableEq, Repr

def Kind.isOpen : Kind → Bool
  | .start | .resume => true
  | _ => false

/-- one event against the stack of open frames -/
def step (stk : List Fr) (e : Ev) : Option (List Fr) :=
  match e.kind with
  | .start | .resume => some (⟨e.fid, e.a, e.b⟩ :: stk)
  | .line =>
    match stk with
    | t :: _ => if t.fid = e.fid ∧ t.first ≤ e.a ∧ e.a ≤ t.last then some stk else none
    | [] => none
  | _ =>
    match stk with
    | t :: rest => if t.fid = e.fid then some rest else none
    | [] => none

def go (stk : List Fr) : List Ev → Option (List Fr)
  | [] => some stk
  | e :: w => match step stk e with
    | some s => go s w
    | none => none

/-- every start/resume has exactly one matching return/unwind/yield of the same frame, properly nested;
line events only inside their own frame and inside its line range -/
def WellBracketed (w : List Ev) : Prop := go [] w = some []

end CyVerif.C45

-- Root of the `CyVerif` library: models (Mathlib-free), lemmas and property theorems.
import CyVerif.Model.Util
import CyVerif.Model.C38
import CyVerif.Props.C38
